#!/bin/bash
# usage: confirm_mutant.sh Cxx mK   -- confirms a sub-agent's seeded change in its scratch worktree /tmp/wt/Cxx
P=$1; M=$2
WT=${WT_ROOT:-/tmp/wt}/$P; OUT=${OUT_ROOT:-/tmp/seed_out}/$P/$M
cd $WT || exit 2
git checkout -q -- . ; git clean -fdq
run_demo() { (cd $WT && PYTHONDONTWRITEBYTECODE=1 PYTHONPATH=$WT timeout 900 /venv/bin/python -W ignore $OUT/demo.py > $OUT/$1.log 2>&1; echo $?); }
PRISTINE=$(run_demo demo_pristine)
git apply $OUT/patch.diff || { echo "{\"apply\": false}" > $OUT/confirm.json; exit 1; }
MUT=$(run_demo demo_mutated)
(cd $WT && PYTHONDONTWRITEBYTECODE=1 nice -n 10 /venv/bin/python -m pytest -q -p no:cacheprovider tests --deselect tests/test_examples.py::TestExamplesCVXPY::test_gradient_descent_lc --deselect tests/test_examples.py::TestExamplesMosek::test_gradient_descent_lc > $OUT/suite_confirm.log 2>&1)
SUITE=$(tail -1 $OUT/suite_confirm.log)
git checkout -q -- . ; git clean -fdq
echo "{\"apply\": true, \"demo_pristine_rc\": $PRISTINE, \"demo_mutated_rc\": $MUT, \"suite\": \"$SUITE\"}" > $OUT/confirm.json
cat $OUT/confirm.json
