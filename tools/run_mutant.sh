#!/bin/bash
# usage: run_mutant.sh <patch.diff> <Cxx> [tier] [extra args]  -- applies a seeded change to /repo, runs the check, reverts.
PATCH=$(readlink -f $1); PROP=$2; TIER=${3:-quick}; shift 3
cd /repo || exit 2
if ! git diff --quiet; then echo "repo dirty"; exit 2; fi
if ! git apply --check "$PATCH" 2>/dev/null; then echo "PATCH-DOES-NOT-APPLY $PATCH"; exit 3; fi
git apply "$PATCH"
cd /verif
cp evidence/$PROP.json /tmp/evidence_$PROP.json.bak 2>/dev/null
./check $PROP $TIER "$@" 2>&1 | grep -v "conda" | grep -E "VIOLATION|KNOWN|HARNESS|cases," | cut -c1-400
RC=${PIPESTATUS[0]}
cd /repo && git checkout -q -- . && git status --short | head -3
rm -rf /verif/replays/$PROP
cp /tmp/evidence_$PROP.json.bak /verif/evidence/$PROP.json 2>/dev/null
exit $RC
