"""Runs every seeded change against the checks that should see it (and records what each check reports).
usage: python3 tools/matrix.py [--all]      (never run while a `vp run` job is using /repo)
Writes seeded/MATRIX.md and updates seeded/*/meta.json (detected_by / missed_by)."""
import json, os, re, subprocess, sys
VERIF = os.path.dirname(os.path.dirname(os.path.abspath(__file__)))
SEEDED = os.path.join(VERIF, "seeded")
# which checks to try per seeded change (own property first)
EXTRA = {
 "C01-m1": ["C01", "C11", "C13"], "C01-m2": ["C01", "C13"], "C02-m1": ["C02", "C16"], "C02-m2": ["C02", "C14"],
 "C03-m1": ["C03", "C04", "C10"], "C03-m2": ["C03", "C04"], "C04-m1": ["C04"], "C04-m2": ["C04"],
 "C05-m1": ["C05", "C11"], "C05-m2": ["C13", "C05"], "C06-m1": ["C06"], "C06-m2": ["C06"], "C07-m1": ["C07"], "C07-m2": ["C07"],
 "C08-m1": ["C08"], "C08-m2": ["C08"], "C09-m1": ["C09", "C03", "C04", "C10"], "C09-m2": ["C09", "C03", "C04"],
 "C10-m1": ["C10", "C03", "C04"], "C10-m2": ["C10", "C03", "C04"], "C11-m1": ["C11", "C05"], "C11-m2": ["C11"],
 "C12-m1": ["C12"], "C12-m2": ["C12", "C14"], "C13-m1": ["C13"], "C13-m2": ["C13", "C15"], "C14-m1": ["C14", "C02"], "C14-m2": ["C14"],
 "C15-m1": ["C15", "C13"], "C15-m2": ["C15"], "C16-m1": ["C16", "C02"], "C16-m2": ["C16"], "C17-m1": ["C17"], "C17-m2": ["C17"],
}
EXTRA.update({
 "C01-r2m1": ["C01"], "C01-r2m2": ["C01"], "C02-r2m1": ["C02", "C14"], "C02-r2m2": ["C02"], "C04-r2m1": ["C04"], "C04-r2m2": ["C04"],
 "C05-r2m1": ["C05"], "C05-r2m2": ["C05"], "C09-r2m1": ["C09", "C04"], "C09-r2m2": ["C09", "C04"], "C10-r2m1": ["C10", "C04"], "C10-r2m2": ["C10"],
 "C11-r2m1": ["C11", "C05"], "C11-r2m2": ["C11", "C14"], "C12-r2m1": ["C12"], "C12-r2m2": ["C12"], "C13-r2m1": ["C13"], "C13-r2m2": ["C13"],
 "C14-r2m1": ["C14", "C02"], "C14-r2m2": ["C14"], "C16-r2m1": ["C16"], "C16-r2m2": ["C16"], "C17-r2m1": ["C17"], "C17-r2m2": ["C17"],
})
EXTRA.update({
 "C03-r3m1": ["C03", "C04", "C09"], "C03-r3m2": ["C03", "C04"], "C06-r3m1": ["C06"], "C06-r3m2": ["C06"], "C07-r3m1": ["C07"], "C07-r3m2": ["C07"],
 "C08-r3m1": ["C08"], "C08-r3m2": ["C08"], "C15-r3m1": ["C15"], "C15-r3m2": ["C15", "C13"],
 "C04-r4m1": ["C04"], "C04-r4m2": ["C04"], "C09-r4m1": ["C09", "C08"], "C09-r4m2": ["C09", "C03", "C04"], "C10-r4m1": ["C10", "C03", "C04", "C09"],
 "C10-r4m2": ["C10"], "C11-r4m1": ["C11", "C14", "C05"], "C11-r4m2": ["C11", "C01"], "C13-r4m1": ["C13"], "C13-r4m2": ["C13"],
 "C14-r4m1": ["C14", "C02"], "C14-r4m2": ["C14"],
})
EXTRA.update({
 "C01-r5m1": ["C01", "C05"], "C01-r5m2": ["C01"], "C02-r5m1": ["C02", "C13"], "C02-r5m2": ["C02", "C14"], "C05-r5m1": ["C05", "C13"], "C05-r5m2": ["C05", "C11"],
 "C12-r5m1": ["C12", "C16"], "C12-r5m2": ["C12", "C14"], "C16-r5m1": ["C16"], "C16-r5m2": ["C16", "C13"], "C17-r5m1": ["C17"], "C17-r5m2": ["C17"],
})
EXTRA.update({
 "C17-r6gam1": ["C17", "C05"], "C04-r6gam2": ["C04", "C03"], "C07-r6gbm1": ["C07"], "C08-r6gbm2": ["C08"], "C02-r6gcm1": ["C02", "C13"], "C14-r6gcm2": ["C14"],
 "C11-r6gdm1": ["C11", "C14"], "C05-r6gdm2": ["C05", "C01"], "C13-r6gem1": ["C13", "C05"], "C12-r6gem2": ["C12"], "C09-r6gfm1": ["C09", "C03", "C04"], "C07-r6gfm2": ["C07"],
})
EXTRA.update({
 "C05-r7gam1": ["C05", "C01"], "C16-r7gam2": ["C16"], "C02-r7gbm1": ["C02", "C01"], "C13-r7gbm2": ["C17", "C13"], "C03-r7gcm1": ["C03", "C04"],
 "C08-r7gcm2": ["C08", "C09"], "C17-r7gdm1": ["C17"], "C10-r7gdm2": ["C10", "C04", "C03", "C09"], "C07-r7gem1": ["C07"], "C06-r7gem2": ["C05", "C06"],
 "C01-r7gfm1": ["C01"], "C14-r7gfm2": ["C14", "C11"],
})
EXTRA.update({
 "C10-r8gam1": ["C10", "C04", "C09"], "C06-r8gam2": ["C06"], "C03-r8gbm1": ["C03", "C04"], "C15-r8gbm2": ["C15"], "C04-r8gcm1": ["C04"],
 "C13-r8gcm2": ["C13", "C04"], "C09-r8gdm1": ["C09"], "C16-r8gdm2": ["C16"], "C07-r8gem1": ["C07"], "C17-r8gem2": ["C17", "C04"],
 "C01-r8gfm1": ["C01", "C02"], "C12-r8gfm2": ["C12"],
})
EXTRA.update({
 "C13-r9gam1": ["C13", "C05"], "C07-r9gam2": ["C07"], "C08-r9gbm1": ["C08"], "C14-r9gbm2": ["C14"], "C03-r9gcm1": ["C03", "C04"], "C10-r9gcm2": ["C10", "C09"],
 "C04-r9gdm1": ["C04", "C03", "C09"], "C12-r9gdm2": ["C12"], "C15-r9gem1": ["C15", "C05"], "C09-r9gem2": ["C09", "C04", "C03"], "C17-r9gfm1": ["C17"], "C17-r9gfm2": ["C17"],
})
EXTRA.update({
 "C03-r10gam1": ["C03", "C04"], "C02-r10gam2": ["C02", "C14"], "C04-r10gbm1": ["C04", "C03"], "C05-r10gbm2": ["C05", "C11"], "C08-r10gcm1": ["C08"],
 "C07-r10gcm2": ["C07"], "C11-r10gdm1": ["C11", "C05"], "C10-r10gdm2": ["C07", "C10"], "C13-r10gem1": ["C13", "C16"], "C14-r10gem2": ["C14"],
 "C16-r10gfm1": ["C16", "C13"], "C17-r10gfm2": ["C17"],
})
EXTRA.update({
 "C08-r11gam1": ["C07", "C08"], "C10-r11gam2": ["C09", "C04", "C10"], "C14-r11gbm1": ["C14", "C02"], "C11-r11gbm2": ["C11"], "C13-r11gcm1": ["C13"], "C16-r11gcm2": ["C16", "C13"],
 "C03-r11gdm1": ["C03", "C04"], "C17-r11gdm2": ["C17"], "C01-r11gem1": ["C01", "C05"], "C02-r11gem2": ["C02", "C05"], "C07-r11gfm1": ["C07"], "C09-r11gfm2": ["C09"],
})
EXTRA.update({
 "C07-r12gam1": ["C07"], "C04-r12gam2": ["C04"], "C08-r12gbm1": ["C08"], "C08-r12gbm2": ["C08"], "C03-r12gcm1": ["C03", "C04"], "C09-r12gcm2": ["C09", "C04", "C03"],
 "C13-r12gdm1": ["C13", "C16"], "C16-r12gdm2": ["C16"], "C14-r12gem1": ["C14"], "C17-r12gem2": ["C17", "C04"], "C15-r12gfm1": ["C15", "C05"], "C01-r12gfm2": ["C05", "C01"],
})
EXTRA.update({
 "C16-r13gam1": ["C16", "C13"], "C09-r13gam2": ["C09"], "C03-r13gbm1": ["C07", "C03"], "C03-r13gbm2": ["C03", "C04"], "C15-r13gcm1": ["C15"], "C04-r13gcm2": ["C04"],
 "C05-r13gdm1": ["C05", "C04"], "C17-r13gdm2": ["C17"], "C06-r13gem1": ["C06"], "C12-r13gem2": ["C12"], "C07-r13gfm1": ["C07"], "C09-r13gfm2": ["C09"],
})
EXTRA.update({
 "C06-r14gam1": ["C06"], "C11-r14gam2": ["C11", "C05"], "C02-r14gbm1": ["C02", "C14"], "C12-r14gbm2": ["C12"], "C08-r14gcm1": ["C08"], "C13-r14gcm2": ["C13", "C16"],
 "C04-r14gdm1": ["C07", "C04"], "C09-r14gdm2": ["C09"], "C15-r14gem1": ["C15"], "C10-r14gem2": ["C10"], "C08-r14gfm1": ["C08"], "C17-r14gfm2": ["C17"],
})
PREFIX_PROP = {"d8b687c": ["C06"], "da7613f": ["C16"], "64a92d9": ["C02"], "2c87331": ["C13", "C02", "C12"], "06fc22c": ["C05", "C11"],
               "85dc330": ["C05", "C11"], "4c427cc": ["C13"], "a8065bf": ["C13"], "a4e97cf": ["C11"], "2aa0389": ["C04"],
               "9db7846": ["C17"], "23f20cf": ["C17"], "b18464c": ["C07"], "d06cb78": ["C10"], "796c1d9": ["C01", "C11"], "e184993": ["C10"]}


CURRENT = {}


def sh(cmd, cwd=None):
    return subprocess.run(cmd, shell=True, cwd=cwd, stdout=subprocess.PIPE, stderr=subprocess.STDOUT, text=True).stdout


REPO = os.environ.get("MATRIX_REPO", "/repo")     # a scratch worktree of /repo's HEAD can be used while a vp run occupies /repo


def run(patch, prop):
    if sh("git diff --quiet || echo dirty", cwd=REPO).strip():
        raise SystemExit("repo dirty")
    if sh("git apply --check %s 2>&1 || echo FAIL" % patch, cwd=REPO).strip():
        return "patch-does-not-apply", []
    sh("git apply %s" % patch, cwd=REPO)
    try:
        out = sh("VERIF_REPO=%s ./check %s quick" % (REPO, prop), cwd=VERIF)
    finally:
        sh("git checkout -q -- .", cwd=REPO)
    buckets = re.findall(r"VIOLATION property=\S+ replay=\S+\s+\[([^\]]+)\]", out)
    # keep the (shrunk) reproducer of the first bucket as a regression case for that check
    m = re.search(r"VIOLATION property=\S+ replay=(\S+)", out)
    if m and CURRENT.get("name"):
        dst = os.path.join(VERIF, "replays", "regress", prop)
        os.makedirs(dst, exist_ok=True)
        src = os.path.join(VERIF, m.group(1))
        if os.path.exists(src) and os.path.getsize(src) < 20000:
            sh("cp %s %s" % (src, os.path.join(dst, CURRENT["name"] + ".json")))
    sh("rm -rf replays/%s" % prop, cwd=VERIF)
    if "HARNESS-ERROR" in out:
        return "harness-error", buckets
    return ("detected" if buckets else "missed"), buckets


def main():
    # evidence files must describe runs on the unchanged tree: keep them aside while checks run on mutated trees
    import shutil, tempfile
    backup = tempfile.mkdtemp(prefix="evidence_backup_", dir=VERIF)
    for fn in os.listdir(os.path.join(VERIF, "evidence")):
        if fn.endswith(".json"):
            shutil.copy(os.path.join(VERIF, "evidence", fn), backup)
    try:
        _main()
    finally:
        for fn in os.listdir(backup):
            shutil.copy(os.path.join(backup, fn), os.path.join(VERIF, "evidence", fn))
        shutil.rmtree(backup, ignore_errors=True)


def _main():
    rows = []
    only = [a for a in sys.argv[1:] if not a.startswith("--")]
    for name in sorted(os.listdir(SEEDED)):
        if only and name not in only:
            continue
        d = os.path.join(SEEDED, name)
        if not os.path.isdir(d):
            continue
        patch = os.path.join(d, "patch.diff")
        rebased = os.path.join(d, "patch_rebased.diff")
        use = rebased if os.path.exists(rebased) else patch
        if name.startswith("prefix-"):
            props = PREFIX_PROP.get(name.split("-", 1)[1], [])
        else:
            props = EXTRA.get(name, [name.split("-")[0]])
        res = {}
        CURRENT["name"] = name
        for prop in props:
            status, buckets = run(use, prop)
            res[prop] = {"status": status, "buckets": buckets[:6]}
            print(name, prop, status, buckets[:3], flush=True)
        meta_path = os.path.join(d, "meta.json")
        meta = json.load(open(meta_path)) if os.path.exists(meta_path) else {"property": props[0] if props else None}
        if name.startswith("prefix-"):
            meta.setdefault("origin", "reverse of the fix commit %s in /repo (the genuine defect as it was before the repair)" % name.split("-", 1)[1])
            sub = os.path.join(d, "subject.txt")
            if os.path.exists(sub):
                meta["fix_subject"] = open(sub).read().strip()
        meta["patch_used"] = os.path.basename(use)
        meta["checks_run"] = res
        meta["detected_by"] = sorted(p for p, r in res.items() if r["status"] == "detected")
        meta["missed_by"] = sorted(p for p, r in res.items() if r["status"] == "missed")
        json.dump(meta, open(meta_path, "w"), indent=1)
        rows.append((name, use, res))
    # the table is rebuilt from every meta.json (so that partial runs keep the other rows)
    with open(os.path.join(SEEDED, "MATRIX.md"), "w") as f:
        f.write("# Seeded changes x checks (quick tier, VERIF_SEED=1)\n\n| seeded change | patch | check: result [first bucket] |\n|---|---|---|\n")
        for name in sorted(os.listdir(SEEDED)):
            mp = os.path.join(SEEDED, name, "meta.json")
            if not os.path.exists(mp):
                continue
            meta = json.load(open(mp))
            res = meta.get("checks_run", {})
            cells = "; ".join("%s: %s%s" % (p, r["status"], (" [" + r["buckets"][0] + "]") if r["buckets"] else "") for p, r in res.items())
            f.write("| %s | %s | %s |\n" % (name, meta.get("patch_used", "patch.diff"), cells))
    print("written", os.path.join(SEEDED, "MATRIX.md"))


if __name__ == "__main__":
    main()
