"""Copy confirmed sub-agent mutants from /tmp/seed_out into /verif/seeded/<prop>-<mk>/ (patch.diff, demo.py, meta.json)."""
import json, os, shutil, sys, re
SRC = os.environ.get("SEED_SRC", "/tmp/seed_out")
DST = "/verif/seeded"
for prop in sorted(os.listdir(SRC)):
    pd = os.path.join(SRC, prop)
    if not os.path.isdir(pd):
        continue
    for m in sorted(os.listdir(pd)):
        md = os.path.join(pd, m)
        cj = os.path.join(md, "confirm.json")
        if not (os.path.isdir(md) and os.path.exists(cj)):
            continue
        c = json.load(open(cj))
        ok = c.get("apply") and c.get("demo_pristine_rc") == 0 and c.get("demo_mutated_rc") not in (0, None) and c.get("suite", "").startswith("269 passed")
        out = os.path.join(DST, "%s-%s%s" % (prop, os.environ.get("SEED_PREFIX", ""), m))
        if not ok:
            print("NOT CONFIRMED", prop, m, c)
            continue
        os.makedirs(out, exist_ok=True)
        shutil.copy(os.path.join(md, "patch.diff"), out)
        shutil.copy(os.path.join(md, "demo.py"), out)
        notes = open(os.path.join(md, "notes.md")).read() if os.path.exists(os.path.join(md, "notes.md")) else ""
        open(os.path.join(out, "notes.md"), "w").write(notes)
        meta_path = os.path.join(out, "meta.json")
        meta = json.load(open(meta_path)) if os.path.exists(meta_path) else {}
        meta.update({
            "property": prop, "origin": "independent sub-agent given only the property text and a scratch worktree",
            "confirmed": {"demo_on_pristine_rc": c["demo_pristine_rc"], "demo_on_mutated_rc": c["demo_mutated_rc"],
                          "existing_suite_with_change": c["suite"],
                          "how": "tools/confirm_mutant.sh in a scratch worktree of the pinned commit (apply patch, run demo, run the full baseline suite, revert, run demo)"},
        })
        meta.setdefault("needs", "see notes.md")
        meta.setdefault("detected_by", "not yet evaluated")
        json.dump(meta, open(meta_path, "w"), indent=1)
        print("harvested", out)
