#!/bin/bash
# usage: tools/sweep.sh "<seeds>" "<checks>" [tier]   -- quietness sweep on the unchanged tree; prints only anomalies + summary lines
SEEDS=${1:-"1 2 3 4 5"}; CHECKS=${2:-"C01 C02 C03 C04 C05 C06 C07 C08 C09 C10 C11 C12 C13 C14 C15 C16 C17"}; TIER=${3:-quick}
cd "$(dirname "$0")/.."
for s in $SEEDS; do
  for c in $CHECKS; do
    out=$(VERIF_SEED=$s ./check $c $TIER 2>&1); rc=$?
    echo "$out" | grep -E "VIOLATION|HARNESS" | cut -c1-400 | sed "s/^/[seed $s] /"
    echo "[seed $s rc=$rc] $(echo "$out" | grep -E 'cases,' | tail -1)"
    if [ $rc -ne 0 ]; then mkdir -p sweep_replays; cp -r replays/$c sweep_replays/${c}_seed$s 2>/dev/null; fi
    rm -rf replays/$c
  done
done
