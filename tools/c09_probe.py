"""development probe: per family of C09, draw K cases and report none/ratio distribution/failures.
usage: PYTHONPATH=/repo:/verif /venv/bin/python -W ignore tools/c09_probe.py K [family ...]"""
import sys, time, traceback, collections
import numpy as np
from hypothesis import strategies as st, given, settings, seed, HealthCheck
from vf import core
from vf.checks import c09

K = int(sys.argv[1]); fams = sys.argv[2:] or c09.FAMILIES
for fam in fams:
    cases = []
    @seed(7)
    @settings(max_examples=K, database=None, deadline=None, suppress_health_check=list(HealthCheck), derandomize=False)
    @given(st.data())
    def gen(data):
        L = data.draw(c09.Lg)
        if fam in c09.c09_more.PARAMS:
            p = c09.c09_more.PARAMS[fam](data.draw, L)
        else:
            return
        cases.append({"family": fam, "params": p, "seed": data.draw(st.integers(0, 10 ** 6)), "n_dim": data.draw(st.integers(1, 4)),
                      "member": data.draw(st.sampled_from(["extremal", "extremal", "random", "random2"])), "slack": data.draw(st.sampled_from([1, 1, 1.3]))})
    gen()
    ctx = core.Ctx("C09", "probe")
    t0 = time.time(); err = collections.Counter()
    for c in cases:
        ctx.begin(c)
        try:
            c09.check_case(c, ctx)
        except Exception as e:
            err[type(e).__name__ + ":" + str(e)[:80]] += 1
            if err[type(e).__name__ + ":" + str(e)[:80]] == 1:
                traceback.print_exc()
        ctx.end()
    mx = ctx.maxima.get("max_ratio:" + fam)
    print("%-34s cases=%d none=%d nontriv=%d max_ratio=%s fails=%d err=%s  %.1fs" % (fam, len(cases), ctx.counters.get("member-not-applicable", 0), len(ctx.nontrivial_hashes), mx, len(ctx.failures), dict(err), time.time() - t0))
    for b, f in ctx.failures.items():
        print("   FAIL", b, f["count"], f["msg"][:300])
