#!/bin/sh
# Offline setup: make sure hypothesis is importable by /venv/bin/python (it is pre-installed there; otherwise
# install it from the offline wheelhouse into /verif/.deps, which ./check puts on PYTHONPATH).
cd "$(dirname "$0")" || exit 2
mkdir -p .deps evidence
if ! PYTHONPATH="$(pwd)/.deps" /venv/bin/python -c "import hypothesis" 2>/dev/null; then
  /venv/bin/pip install --no-index --find-links /opt/veriftools/wheels --target "$(pwd)/.deps" hypothesis || exit 1
fi
PYTHONPATH="/repo:$(pwd):$(pwd)/.deps" PYTHONDONTWRITEBYTECODE=1 /venv/bin/python -c "import hypothesis, cvxpy, numpy, PEPit; print('setup ok', hypothesis.__version__)"
