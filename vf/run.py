"""python -m vf.run <Cxx> [quick|thorough] [--replay FILE] [--cases N] [--shards K]

exit 0: property held on everything explored (KNOWN-FINDING lines may be printed)
exit 1: at least one `VIOLATION property=<id> replay=<path>` line was printed
exit 2: harness error (never a verdict)
"""
import importlib
import json
import multiprocessing
import os
import sys
import time

from vf import core


def main(argv):
    if not argv:
        print(__doc__)
        return 2
    prop = argv[0].upper()
    tier = os.environ.get("VERIF_TIER", "quick")
    replay = None
    cases_override = None
    shards_override = None
    i = 1
    while i < len(argv):
        a = argv[i]
        if a in ("quick", "thorough"):
            tier = a
        elif a == "--tier":
            i += 1
            tier = argv[i]
        elif a == "--replay":
            i += 1
            replay = argv[i]
        elif a == "--cases":
            i += 1
            cases_override = int(argv[i])
        elif a == "--shards":
            i += 1
            shards_override = int(argv[i])
        else:
            print("unknown argument", a)
            return 2
        i += 1
    if tier not in ("quick", "thorough"):
        tier = "quick"
    try:
        base_seed = int(os.environ.get("VERIF_SEED", "1"))
    except ValueError:
        base_seed = 1

    modname = "vf.checks.%s" % prop.lower()
    t0 = time.time()
    try:
        module = importlib.import_module(modname)
    except Exception:
        import traceback
        traceback.print_exc()
        print("HARNESS-ERROR cannot import", modname)
        return 2

    known = core.load_known(prop)
    ctx = core.Ctx(prop, tier)

    # ---------------------------------------------------------------------------------------------------------
    # replay mode: one saved case, no Hypothesis
    # ---------------------------------------------------------------------------------------------------------
    if replay is not None:
        with open(replay) as f:
            data = json.load(f)
        case = data["case"] if isinstance(data, dict) and "case" in data else data
        try:
            core.run_case(module, case, ctx)
        except core.HarnessError as exc:
            print("HARNESS-ERROR", exc)
            return 2
        rc = 0
        for b, fl in sorted(ctx.failures.items()):
            e = core.known_entry_for(b, known)
            if e is not None:
                print("KNOWN-FINDING: property=%s %s" % (prop, e["what_fails"]))
            else:
                print("VIOLATION property=%s replay=%s  [%s] %s" % (prop, replay, b, fl["msg"][:300]))
                rc = 1
        if rc == 0:
            print("replay ok: no violation on", replay)
        return rc

    # ---------------------------------------------------------------------------------------------------------
    # regression tier: every saved reproducer, bypassing Hypothesis
    # ---------------------------------------------------------------------------------------------------------
    regress_dir = os.path.join(core.VERIF, "replays", "regress", prop)
    n_regress = 0
    if os.path.isdir(regress_dir):
        for name in sorted(os.listdir(regress_dir)):
            if not name.endswith(".json"):
                continue
            with open(os.path.join(regress_dir, name)) as f:
                data = json.load(f)
            case = data["case"] if isinstance(data, dict) and "case" in data else data
            try:
                core.run_case(module, case, ctx)
            except core.HarnessError as exc:
                print("HARNESS-ERROR (regress %s) %s" % (name, exc))
                return 2
            n_regress += 1
    ctx.counters["regress_cases"] = n_regress

    # ---------------------------------------------------------------------------------------------------------
    # generated tier: sharded Hypothesis
    # ---------------------------------------------------------------------------------------------------------
    total = cases_override if cases_override is not None else module.CASES[tier]
    ncpu = os.cpu_count() or 4
    nshards = shards_override or getattr(module, "SHARDS", {}).get(tier, min(16, ncpu))
    nshards = max(1, min(nshards, total if total > 0 else 1))
    per = [total // nshards + (1 if k < total % nshards else 0) for k in range(nshards)]
    jobs = [(modname, tier, k, nshards, per[k], base_seed) for k in range(nshards)]
    mp = multiprocessing.get_context("fork")
    procs = min(nshards, ncpu)
    if procs == 1:
        results = [core.run_shard(j) for j in jobs]
    else:
        with mp.Pool(processes=procs, maxtasksperchild=1) as pool:
            results = pool.map(core.run_shard, jobs, chunksize=1)
    harness_errors = [r for r in results if "harness_error" in r]
    if harness_errors:
        for r in harness_errors[:3]:
            print("HARNESS-ERROR shard %s: %s" % (r["shard"], r["harness_error"][-3000:]))
        return 2
    for r in results:
        ctx.merge(r)

    # ---------------------------------------------------------------------------------------------------------
    # verdict
    # ---------------------------------------------------------------------------------------------------------
    rc = 0
    violations = 0
    known_hits = {}
    for b, fl in sorted(ctx.failures.items()):
        e = core.known_entry_for(b, known)
        if e is not None:
            known_hits.setdefault(e["key"], [e, 0])
            known_hits[e["key"]][1] += fl["count"]
        else:
            violations += 1
            rc = 1
            if violations <= 12:
                path = core.write_replay(prop, b, fl)
                rel = os.path.relpath(path, core.VERIF)
                print("VIOLATION property=%s replay=%s  [%s] x%d %s" % (prop, rel, b, fl["count"], fl["msg"][:400]))
            elif violations == 13:
                print("(further violation buckets are not listed one by one; see the evidence file)")
    for key, (e, n) in sorted(known_hits.items()):
        print("KNOWN-FINDING: property=%s %s (reproduced on %d case(s))" % (prop, e["what_fails"], n))

    wall = time.time() - t0
    nontrivial = len(ctx.nontrivial_hashes)
    evidence = {
        "property_id": prop,
        "tier": tier,
        "seed": base_seed,
        "level": "exploration",
        "coverage": {
            "evaluations": ctx.evaluations,
            "distinct_nontrivial": nontrivial,
            "rule": module.RULE,
            "samples": ctx.samples[:4],
            "distribution": dict(sorted(ctx.counters.items())),
            "maxima": {k: ctx.maxima[k] for k in sorted(ctx.maxima)},
            "shards": nshards,
            "known_findings_reproduced": {k: v[1] for k, v in known_hits.items()},
            "violation_buckets": {b: fl["count"] for b, fl in sorted(ctx.failures.items())
                                  if core.known_entry_for(b, known) is None},
            "trusted_base": getattr(module, "TRUSTED", []),
            "explanation": getattr(module, "EXPLANATION", ""),
            "exhaustive": False,
        },
        "assumptions": getattr(module, "ASSUMPTIONS", []),
        "wall_s": round(wall, 2),
        "violations": violations,
    }
    os.makedirs(os.path.join(core.VERIF, "evidence"), exist_ok=True)
    with open(os.path.join(core.VERIF, "evidence", "%s.json" % prop), "w") as f:
        json.dump(evidence, f, indent=1, default=repr)
    print("%s %s: %d cases, %d distinct non-trivial, %d violation bucket(s), %d known-finding(s), %.1fs"
          % (prop, tier, ctx.evaluations, nontrivial, violations, len(known_hits), wall))
    if rc == 0 and nontrivial < 2 and total > 0:
        print("HARNESS-ERROR generator health: fewer than 2 non-trivial cases")
        return 2
    return rc


if __name__ == "__main__":
    sys.exit(main(sys.argv[1:]))
