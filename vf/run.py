"""python -m vf.run <Cxx> [quick|thorough] [--replay FILE] [--cases N] [--shards K]

exit 0: property held on everything explored (KNOWN-FINDING lines may be printed)
exit 1: at least one `VIOLATION property=<id> replay=<path>` line was printed
exit 2: harness error (never a verdict)
"""
import importlib
import json
import multiprocessing
import os
import sys
import time

from vf import core


def _shard_entry(job, path):
    """child process: run one shard, write its result as JSON"""
    try:
        res = core.run_shard(job)
    except BaseException:  # noqa
        import traceback
        res = {"harness_error": traceback.format_exc(), "shard": job[2]}
    tmp = path + ".tmp"
    with open(tmp, "w") as f:
        json.dump(res, f, default=repr)
    os.replace(tmp, path)
    os._exit(0)


def run_shards_in_processes(jobs, procs, tier):
    """One forked process per shard, started from this (single-threaded) process - no multiprocessing.Pool, whose handler
    threads fork replacement workers from a multi-threaded parent (observed once: all workers dead-locked in futex_wait).
    A shard that produces no result within the time limit is killed and run again once; a second failure is a harness error."""
    work = os.path.join(core.VERIF, "evidence", ".work", "%d" % os.getpid())
    os.makedirs(work, exist_ok=True)
    limit = float(os.environ.get("VERIF_SHARD_TIMEOUT", "1500" if tier == "quick" else "14400"))
    mp = multiprocessing.get_context("fork")
    pending = list(enumerate(jobs))
    attempts = {k: 0 for k, _ in pending}
    running = {}
    results = {}
    try:
        while pending or running:
            while pending and len(running) < procs:
                k, job = pending.pop(0)
                path = os.path.join(work, "shard_%d_%d.json" % (k, attempts[k]))
                p = mp.Process(target=_shard_entry, args=(job, path))
                p.start()
                running[k] = (p, path, time.time(), job)
            time.sleep(0.05)
            for k in list(running):
                p, path, t0, job = running[k]
                if os.path.exists(path):
                    with open(path) as f:
                        results[k] = json.load(f)
                    p.join(5)
                    if p.is_alive():
                        p.kill()
                    del running[k]
                elif not p.is_alive() or time.time() - t0 > limit:
                    if p.is_alive():
                        p.kill()
                    p.join(5)
                    del running[k]
                    attempts[k] += 1
                    if attempts[k] >= 2:
                        results[k] = {"harness_error": "shard %d produced no result (crashed or exceeded %.0fs) twice" % (k, limit), "shard": k}
                    else:
                        pending.append((k, job))
    finally:
        for k, (p, path, t0, job) in running.items():
            if p.is_alive():
                p.kill()
        import shutil
        shutil.rmtree(work, ignore_errors=True)
    return [results[k] for k in sorted(results)]


def main(argv):
    if not argv:
        print(__doc__)
        return 2
    prop = argv[0].upper()
    tier = os.environ.get("VERIF_TIER", "quick")
    replay = None
    cases_override = None
    shards_override = None
    i = 1
    while i < len(argv):
        a = argv[i]
        if a in ("quick", "thorough"):
            tier = a
        elif a == "--tier":
            i += 1
            tier = argv[i]
        elif a == "--replay":
            i += 1
            replay = argv[i]
        elif a == "--cases":
            i += 1
            cases_override = int(argv[i])
        elif a == "--shards":
            i += 1
            shards_override = int(argv[i])
        else:
            print("unknown argument", a)
            return 2
        i += 1
    if tier not in ("quick", "thorough"):
        tier = "quick"
    try:
        base_seed = int(os.environ.get("VERIF_SEED", "1"))
    except ValueError:
        base_seed = 1

    modname = "vf.checks.%s" % prop.lower()
    t0 = time.time()
    try:
        module = importlib.import_module(modname)
    except Exception:
        import traceback
        traceback.print_exc()
        print("HARNESS-ERROR cannot import", modname)
        return 2

    known = core.load_known(prop)
    ctx = core.Ctx(prop, tier)

    # ---------------------------------------------------------------------------------------------------------
    # replay mode: one saved case, no Hypothesis
    # ---------------------------------------------------------------------------------------------------------
    if replay is not None:
        with open(replay) as f:
            data = json.load(f)
        case = data["case"] if isinstance(data, dict) and "case" in data else data
        try:
            core.run_case(module, case, ctx)
        except core.HarnessError as exc:
            print("HARNESS-ERROR", exc)
            return 2
        rc = 0
        for b, fl in sorted(ctx.failures.items()):
            e = core.known_entry_for(b, known)
            if e is not None:
                print("KNOWN-FINDING: property=%s %s" % (prop, e["what_fails"]))
            else:
                print("VIOLATION property=%s replay=%s  [%s] %s" % (prop, replay, b, fl["msg"][:300]))
                rc = 1
        if rc == 0:
            print("replay ok: no violation on", replay)
        return rc

    # ---------------------------------------------------------------------------------------------------------
    # regression tier: every saved reproducer, bypassing Hypothesis
    # ---------------------------------------------------------------------------------------------------------
    # (executed inside shard 0's child process, never in this parent: a parent that has run a solver has started
    #  solver threads, and children forked from it dead-lock)
    regress_dir = os.path.join(core.VERIF, "replays", "regress", prop)
    regress_cases = []
    if os.path.isdir(regress_dir):
        for name in sorted(os.listdir(regress_dir)):
            if not name.endswith(".json"):
                continue
            with open(os.path.join(regress_dir, name)) as f:
                data = json.load(f)
            regress_cases.append(data["case"] if isinstance(data, dict) and "case" in data else data)

    # ---------------------------------------------------------------------------------------------------------
    # generated tier: sharded Hypothesis
    # ---------------------------------------------------------------------------------------------------------
    total = cases_override if cases_override is not None else module.CASES[tier]
    ncpu = os.cpu_count() or 4
    nshards = shards_override or getattr(module, "SHARDS", {}).get(tier, min(16, ncpu))
    nshards = max(1, min(nshards, total if total > 0 else 1))
    per = [total // nshards + (1 if k < total % nshards else 0) for k in range(nshards)]
    jobs = [(modname, tier, k, nshards, per[k], base_seed, regress_cases if k == 0 else []) for k in range(nshards)]
    procs = min(nshards, ncpu)
    results = run_shards_in_processes(jobs, max(procs, 1), tier)
    harness_errors = [r for r in results if "harness_error" in r]
    if harness_errors:
        for r in harness_errors[:3]:
            print("HARNESS-ERROR shard %s: %s" % (r["shard"], r["harness_error"][-3000:]))
        return 2
    for r in results:
        ctx.merge(r)

    # ---------------------------------------------------------------------------------------------------------
    # verdict
    # ---------------------------------------------------------------------------------------------------------
    rc = 0
    violations = 0
    known_hits = {}
    for b, fl in sorted(ctx.failures.items()):
        e = core.known_entry_for(b, known)
        if e is not None:
            known_hits.setdefault(e["key"], [e, 0])
            known_hits[e["key"]][1] += fl["count"]
        else:
            violations += 1
            rc = 1
            if violations <= 12:
                path = core.write_replay(prop, b, fl)
                rel = os.path.relpath(path, core.VERIF)
                print("VIOLATION property=%s replay=%s  [%s] x%d %s" % (prop, rel, b, fl["count"], fl["msg"][:400]))
            elif violations == 13:
                print("(further violation buckets are not listed one by one; see the evidence file)")
    for key, (e, n) in sorted(known_hits.items()):
        print("KNOWN-FINDING: property=%s %s (reproduced on %d case(s))" % (prop, e["what_fails"], n))

    wall = time.time() - t0
    nontrivial = len(ctx.nontrivial_hashes)
    evidence = {
        "property_id": prop,
        "tier": tier,
        "seed": base_seed,
        "level": "exploration",
        "coverage": {
            "evaluations": ctx.evaluations,
            "distinct_nontrivial": nontrivial,
            "rule": module.RULE,
            "samples": ctx.samples[:4],
            "distribution": dict(sorted(ctx.counters.items())),
            "maxima": {k: ctx.maxima[k] for k in sorted(ctx.maxima)},
            "shards": nshards,
            "known_findings_reproduced": {k: v[1] for k, v in known_hits.items()},
            "violation_buckets": {b: fl["count"] for b, fl in sorted(ctx.failures.items())
                                  if core.known_entry_for(b, known) is None},
            "trusted_base": getattr(module, "TRUSTED", []),
            "explanation": getattr(module, "EXPLANATION", ""),
            "exhaustive": False,
        },
        "assumptions": getattr(module, "ASSUMPTIONS", []),
        "wall_s": round(wall, 2),
        "violations": violations,
    }
    os.makedirs(os.path.join(core.VERIF, "evidence"), exist_ok=True)
    with open(os.path.join(core.VERIF, "evidence", "%s.json" % prop), "w") as f:
        json.dump(evidence, f, indent=1, default=repr)
    print("%s %s: %d cases, %d distinct non-trivial, %d violation bucket(s), %d known-finding(s), %.1fs"
          % (prop, tier, ctx.evaluations, nontrivial, violations, len(known_hits), wall))
    if rc == 0 and nontrivial < 2 and total > 0:
        print("HARNESS-ERROR generator health: fewer than 2 non-trivial cases")
        return 2
    return rc


if __name__ == "__main__":
    sys.exit(main(sys.argv[1:]))
