"""Hypothesis strategies that emit PEPit programs (vf/prog.py instruction lists).

`model()` emits "method-like" models that are bounded and feasible by construction (so that a solve returns a
finite value most of the time) but vary in everything the properties quantify over: function / operator class
and parameters, declaration order of the stationary point, kind of initial condition, number and kind of steps,
several metrics, composite functions, partitions, user constraints with constant terms, LMIs (symmetric as
written or not), objects created but never added, repeated declarations.
"""
from hypothesis import strategies as st

from vf.prog import ALL_CLASSES

# pool growth of every instruction: op -> (nF, nP, nE, nC, nM, nB)
GROWTH = {
    "func": (1, 0, 0, 0, 0, 0), "compose": (1, 0, 0, 0, 0, 0), "partition": (0, 0, 0, 0, 0, 1),
    "init_point": (0, 1, 0, 0, 0, 0), "new_point": (0, 1, 0, 0, 0, 0), "new_expr": (0, 0, 1, 0, 0, 0),
    "stat": (0, 1, 1, 0, 0, 0), "fixed": (0, 1, 1, 0, 0, 0), "lincomb": (0, 1, 0, 0, 0, 0),
    "oracle": (0, 1, 1, 0, 0, 0), "grad": (0, 1, 0, 0, 0, 0), "value": (0, 0, 1, 0, 0, 0),
    "gd": (0, 2, 1, 0, 0, 0), "avg": (0, 2, 0, 0, 0, 0), "adjoint": (0, 1, 0, 0, 0, 0),
    "set_v": (0, 1, 0, 0, 0, 0), "block": (0, 1, 0, 0, 0, 0),
    "expr": (0, 0, 1, 0, 0, 0), "cons": (0, 0, 0, 1, 0, 0), "redeclare": (0, 0, 0, 1, 0, 0),
    "lmi": (0, 0, 0, 0, 1, 0), "metric": (0, 0, 0, 0, 0, 0), "ball_all": (0, 0, 0, 1, 0, 0),
}
STEP_GROWTH = {  # (nP, nE)
    "prox": (2, 1), "inexact_grad": (2, 1), "linesearch": (2, 1), "inexact_prox": (4, 3), "eps_subgrad": (2, 2),
    "linopt": (2, 1), "bregman_grad": (4, 1), "bregman_prox": (4, 2),
}


class Emitter(object):
    """Mirrors the pool growth of prog.Interp so that generators can refer to registers by absolute index."""

    def __init__(self):
        self.instrs = []
        self.n = {"F": 0, "P": 0, "E": 0, "C": 0, "M": 0, "B": 0}
        self.tags = set()

    def emit(self, *ins):
        ins = list(ins)
        op = ins[0]
        before = dict(self.n)
        if op == "step":
            gp, ge = STEP_GROWTH[ins[1]]
            self.n["P"] += gp
            self.n["E"] += ge
        else:
            g = GROWTH[op]
            for k, inc in zip("FPECMB", g):
                self.n[k] += inc
        self.instrs.append(ins)
        new = {k: list(range(before[k], self.n[k])) for k in self.n}
        return new

    # convenience wrappers returning the indices of what was created ------------------------------------------
    def func(self, cls, params, name=None, direct=False):
        return self.emit("func", cls, params, name, direct)["F"][0]

    def stat(self, f, name=None):
        r = self.emit("stat", f, name)
        return r["P"][0], r["E"][0]

    def init_point(self, name=None):
        return self.emit("init_point", name)["P"][0]

    def oracle(self, f, p):
        r = self.emit("oracle", f, p)
        return r["P"][0], r["E"][0]

    def gd(self, f, p, gamma):
        r = self.emit("gd", f, p, gamma)
        return r["P"][0], r["E"][0], r["P"][1]      # g, fval, xnew

    def expr(self, *a):
        return self.emit("expr", *a)["E"][0]


# ----------------------------------------------------------------------------------------------------------------
# parameters
# ----------------------------------------------------------------------------------------------------------------
pos = st.one_of(st.sampled_from([1, 1.0, 2, 0.5, 3.0, 0.25]),
                st.floats(0.2, 6.0, allow_nan=False).map(lambda x: round(float(x), 3)))
ratio = st.one_of(st.sampled_from([0.1, 0.5, 0.25, 0.9]),
                  st.floats(0.02, 0.95, allow_nan=False).map(lambda x: round(float(x), 3)))
frac = st.floats(0.05, 0.95, allow_nan=False).map(lambda x: round(float(x), 3))
small_w = st.one_of(st.sampled_from([1, 2, 0.5, 1.5, 3]), st.floats(0.25, 3.0).map(lambda x: round(float(x), 2)))
name_or_none = st.one_of(st.none(), st.none(), st.sampled_from(["f", "g", "A", "h1"]))
pname_or_none = st.one_of(st.none(), st.none(), st.sampled_from(["x0", "xs", "z", "u"]))


@st.composite
def class_params(draw, cls):
    """Admissible parameters for a class (ranges from the class docstrings)."""
    if cls in ("ConvexFunction", "MonotoneOperator", "NonexpansiveOperator"):
        return {}
    if cls in ("StronglyConvexFunction", "StronglyMonotoneOperator"):
        return {"mu": draw(pos)}
    if cls in ("SmoothFunction", "SmoothConvexFunction", "ConvexQGFunction", "LipschitzOperator", "LinearOperator",
               "SkewSymmetricLinearOperator"):
        return {"L": draw(pos)}
    if cls in ("SmoothStronglyConvexFunction", "SmoothStronglyConvexQuadraticFunction", "RsiEbFunction",
               "LipschitzStronglyMonotoneOperator"):
        L = draw(pos)
        return {"mu": round(L * draw(ratio), 4), "L": L}
    if cls == "SymmetricLinearOperator":
        L = draw(pos)
        mu = round(L * draw(st.one_of(ratio, ratio.map(lambda r: -r), st.just(0))), 4)
        return {"mu": mu, "L": L}
    if cls == "SmoothConvexLipschitzFunction":
        return {"L": draw(pos), "M": draw(pos)}
    if cls == "ConvexLipschitzFunction":
        return {"M": draw(pos)}
    if cls == "ConvexIndicatorFunction":
        return {"D": draw(st.one_of(st.just("inf"), pos))}
    if cls == "ConvexSupportFunction":
        return {"M": draw(st.one_of(st.just("inf"), pos))}
    if cls == "CocoerciveOperator":
        return {"beta": draw(pos)}
    if cls == "CocoerciveStronglyMonotoneOperator":
        beta = draw(pos)
        # mu * beta <= 1 is necessary for the class to be non-degenerate
        return {"mu": round(draw(ratio) / beta, 4), "beta": beta}
    if cls == "NegativelyComonotoneOperator":
        return {"rho": draw(pos)}
    if cls == "BlockSmoothConvexFunction":
        d = draw(st.integers(1, 3))
        return {"partition": 0, "Ls": [draw(pos) for _ in range(d)], "d": d}
    raise ValueError(cls)


def lipschitz_of(cls, p):
    """A Lipschitz constant of the gradient / operator if the class has one (used to pick safe step sizes)."""
    if "L" in p:
        return float(p["L"])
    if "beta" in p:
        return 1.0 / float(p["beta"])
    if cls == "NonexpansiveOperator":
        return 1.0
    if cls == "BlockSmoothConvexFunction":
        return float(sum(p["Ls"]))
    return None


SMOOTH_GD = ["SmoothConvexFunction", "SmoothStronglyConvexFunction", "SmoothConvexLipschitzFunction",
             "SmoothStronglyConvexQuadraticFunction", "RsiEbFunction", "CocoerciveOperator",
             "CocoerciveStronglyMonotoneOperator", "LipschitzOperator", "LipschitzStronglyMonotoneOperator",
             "SymmetricLinearOperator", "SkewSymmetricLinearOperator", "ConvexQGFunction",
             "ConvexLipschitzFunction"]
PROX_OK = ["ConvexFunction", "StronglyConvexFunction", "ConvexLipschitzFunction", "ConvexIndicatorFunction",
           "ConvexSupportFunction", "MonotoneOperator", "StronglyMonotoneOperator", "SmoothConvexFunction",
           "SmoothStronglyConvexFunction", "ConvexQGFunction", "CocoerciveOperator"]
HAS_VALUES = ["ConvexFunction", "StronglyConvexFunction", "SmoothFunction", "SmoothConvexFunction",
              "SmoothStronglyConvexFunction", "SmoothConvexLipschitzFunction", "ConvexLipschitzFunction",
              "ConvexQGFunction", "SmoothStronglyConvexQuadraticFunction", "BlockSmoothConvexFunction"]
FVAL_BOUNDED_FROM_DIST = ["SmoothConvexFunction", "SmoothStronglyConvexFunction", "SmoothConvexLipschitzFunction",
                          "SmoothStronglyConvexQuadraticFunction", "ConvexLipschitzFunction", "ConvexQGFunction",
                          "BlockSmoothConvexFunction"]
TEMPLATE_CLASSES = sorted(set(SMOOTH_GD + PROX_OK + ["SmoothFunction", "NonexpansiveOperator", "LinearOperator",
                                                     "BlockSmoothConvexFunction", "NegativelyComonotoneOperator"]))


@st.composite
def model(draw, max_steps=3, allow_lmi=True, allow_nonsym_lmi=False, allow_partition=True, allow_composite=True,
          allow_extras=True, classes=None, allow_redeclare=False):
    """Emit a bounded, feasible method-like model.  Returns dict(instrs, meta)."""
    em = Emitter()
    meta = {"tags": []}
    cls = draw(st.sampled_from(classes or TEMPLATE_CLASSES))
    params = draw(class_params(cls))
    meta["cls"] = cls
    nsteps = draw(st.integers(1, max_steps))
    stat_pos = draw(st.sampled_from(["first", "first", "middle", "last"]))
    direct = draw(st.sampled_from([False, False, False, True])) and cls != "BlockSmoothConvexFunction"
    fname = draw(name_or_none)

    if cls == "BlockSmoothConvexFunction":
        em.emit("partition", params["d"])
    f = em.func(cls, params, fname, direct)
    main_f = f

    # optional composite: F = w1*f + w2*f2 with f2 of a compatible simple class (values exist)
    second = None
    if allow_composite and cls in ("SmoothConvexFunction", "SmoothStronglyConvexFunction") and draw(st.integers(0, 3)) == 0:
        cls2 = draw(st.sampled_from(["ConvexFunction", "SmoothConvexFunction", "ConvexLipschitzFunction",
                                     "ConvexIndicatorFunction"]))
        p2 = draw(class_params(cls2))
        second = em.func(cls2, p2, None, False)
        meta["tags"].append("composite")

    x0 = em.init_point(draw(pname_or_none))
    xs = fs = None

    def declare_stat():
        if cls == "NonexpansiveOperator":
            r = em.emit("fixed", main_f)
            return r["P"][0], r["E"][0]
        if cls == "SmoothStronglyConvexQuadraticFunction" or second is None:
            return em.stat(main_f, draw(pname_or_none))
        comp = em.emit("compose", [[main_f, 1], [second, 1]])["F"][0]
        meta["comp"] = comp
        return em.stat(comp, None)

    if cls == "LinearOperator":
        # y = A x0 ; z = A^T y ; metric |z|^2 , |y|^2 ; init |x0|^2 <= R
        g = em.emit("grad", f, x0)["P"][0]
        z = em.emit("adjoint", f, g)["P"][0]
        more = draw(st.integers(0, 2))
        pts = [x0, g, z]
        for _ in range(more):
            src = draw(st.sampled_from(pts))
            if draw(st.booleans()):
                pts.append(em.emit("grad", f, src)["P"][0])
            else:
                pts.append(em.emit("adjoint", f, src)["P"][0])
        e0 = em.expr("sq", x0)
        em.emit("cons", "init", e0, "<=", draw(pos))
        metrics = [em.expr("sq", draw(st.sampled_from(pts[1:]))) for _ in range(draw(st.integers(1, 2)))]
        for m in metrics:
            em.emit("metric", m)
        meta["tags"].append("linear")
        points_for_extras = pts
        exprs_for_extras = [e0] + metrics
    elif cls in ("SymmetricLinearOperator", "SkewSymmetricLinearOperator"):
        L = lipschitz_of(cls, params)
        x = x0
        pts = [x0]
        for _ in range(nsteps):
            gamma = round(draw(frac) * 1.5 / L, 4)
            g, _fv, x = em.gd(f, x, gamma)
            pts += [g, x]
        e0 = em.expr("sq", x0)
        em.emit("cons", "init", e0, "<=", draw(pos))
        metrics = [em.expr("sq", draw(st.sampled_from(pts[1:]))) for _ in range(draw(st.integers(1, 2)))]
        for m in metrics:
            em.emit("metric", m)
        points_for_extras = pts
        exprs_for_extras = [e0] + metrics
    else:
        if stat_pos == "first":
            xs, fs = declare_stat()
        x = x0
        pts = [x0]
        fvals = []
        grads = []
        L = lipschitz_of(cls, params)
        mid = draw(st.integers(0, nsteps - 1))
        for k in range(nsteps):
            if stat_pos == "middle" and k == mid and xs is None:
                xs, fs = declare_stat()
            target = meta.get("comp", main_f) if second is not None and "comp" in meta else main_f
            if cls == "NonexpansiveOperator":
                a = draw(frac)
                r = em.emit("avg", f, x, a)
                g, x = r["P"]
                grads.append(g)
            elif cls == "BlockSmoothConvexFunction":
                g, fv = em.oracle(f, x)
                blk = draw(st.integers(0, params["d"] - 1))
                gb = em.emit("block", 0, g, blk)["P"][0]
                gamma = round(draw(frac) / float(params["Ls"][blk % len(params["Ls"])]), 4)
                x = em.emit("lincomb", [[x, 1], [gb, -gamma]])["P"][0]
                grads.append(g)
                fvals.append(fv)
            elif second is not None:
                # proximal gradient on main_f + second
                Lm = lipschitz_of(cls, params)
                gamma = round(draw(frac) * 1.8 / Lm, 4)
                g, fv, y = em.gd(main_f, x, gamma)
                r = em.emit("step", "prox", second, y, gamma)
                x = r["P"][0]
                grads.append(g)
            elif cls in SMOOTH_GD and (cls not in PROX_OK or draw(st.booleans())):
                Lc = L if L is not None else float(params.get("M", 1.0))
                gamma = round(draw(frac) * (1.8 if cls not in ("ConvexLipschitzFunction", "ConvexQGFunction",
                                                              "RsiEbFunction") else 1.0) / Lc, 4)
                kind = draw(st.sampled_from(["gd", "gd", "gd", "inexact", "linesearch"])) \
                    if cls in ("SmoothConvexFunction", "SmoothStronglyConvexFunction") else "gd"
                if kind == "gd":
                    g, fv, x = em.gd(f, x, gamma)
                    grads.append(g)
                    fvals.append(fv)
                elif kind == "inexact":
                    eps = round(draw(frac) * 0.5, 3)
                    r = em.emit("step", "inexact_grad", f, x, round(gamma / 2, 4), eps,
                                draw(st.sampled_from(["absolute", "relative"])))
                    x = r["P"][1]
                    fvals.append(r["E"][0])
                else:
                    g0, fv0 = em.oracle(f, x)
                    r = em.emit("step", "linesearch", f, x, [g0])
                    x = r["P"][1]
                    grads.append(r["P"][0])
                    fvals.append(r["E"][0])
            elif cls == "SmoothFunction":
                gamma = round(draw(frac) / L, 4)
                g, fv, x = em.gd(f, x, gamma)
                grads.append(g)
                fvals.append(fv)
            elif cls == "NegativelyComonotoneOperator":
                g = em.emit("grad", f, x)["P"][0]
                grads.append(g)
            else:
                gamma = draw(pos)
                r = em.emit("step", "prox", f, x, gamma)
                x = r["P"][0]
                grads.append(r["P"][1])
                fvals.append(r["E"][0])
            pts.append(x)
        if xs is None:
            xs, fs = declare_stat()
        meta["stat_pos"] = stat_pos

        # final evaluation (so that a function value / gradient at the last iterate exists)
        target = meta.get("comp", main_f)
        if cls in HAS_VALUES:
            gN, fN = em.oracle(target, x)
            grads.append(gN)
            fvals.append(fN)
        elif cls not in ("NegativelyComonotoneOperator",):
            gN = em.emit("grad", f, x)["P"][0]
            grads.append(gN)

        # initial condition
        R = draw(pos)
        if cls == "SmoothFunction":
            # non-convex: f(x0) - f(xN) <= R and metrics = |grad|^2 at the iterates (their min is bounded)
            e0 = em.expr("fdiff", fvals[0], fvals[-1])
            em.emit("cons", "init", e0, "<=", R)
            metrics = [em.expr("sq", g) for g in grads[:-1]] or [em.expr("sq", grads[0])]
            init_kind = "fdec"
        else:
            init_kinds = ["dist"]
            if cls in ("SmoothStronglyConvexFunction", "SmoothStronglyConvexQuadraticFunction") and second is None:
                init_kinds += ["fval", "grad"]
            init_kind = draw(st.sampled_from(init_kinds))
            if init_kind == "dist":
                e0 = em.expr("sqdist", x0, xs)
            elif init_kind == "fval":
                g0i, f0i = em.oracle(main_f, x0)
                e0 = em.expr("fdiff", f0i, fs)
            else:
                g0i, f0i = em.oracle(main_f, x0)
                e0 = em.expr("sq", g0i)
            em.emit("cons", "init", e0, "<=", R, draw(st.one_of(st.none(), st.just("init"))))
            # metrics
            choices = ["dist"]
            if cls == "NegativelyComonotoneOperator":
                choices = ["dist0"]
            if fvals and (cls in FVAL_BOUNDED_FROM_DIST or second is not None or cls in
                          ("ConvexFunction", "StronglyConvexFunction")):
                choices.append("fval")
            if cls in ("SmoothConvexFunction", "SmoothStronglyConvexFunction", "SmoothConvexLipschitzFunction",
                       "SmoothStronglyConvexQuadraticFunction", "CocoerciveOperator", "LipschitzOperator",
                       "LipschitzStronglyMonotoneOperator", "CocoerciveStronglyMonotoneOperator", "RsiEbFunction",
                       "NonexpansiveOperator") and second is None and grads:
                choices.append("grad")
            nmet = draw(st.integers(1, 3))
            metrics = []
            for _ in range(nmet):
                mk = draw(st.sampled_from(choices))
                if mk == "dist":
                    metrics.append(em.expr("sqdist", draw(st.sampled_from(pts[1:])), xs))
                elif mk == "dist0":
                    metrics.append(em.expr("sqdist", x0, xs))
                elif mk == "fval":
                    metrics.append(em.expr("fdiff", fvals[-1], fs))
                else:
                    if cls == "NonexpansiveOperator":
                        metrics.append(em.expr("sqdist", pts[-1], grads[-1]))
                    else:
                        metrics.append(em.expr("sq", grads[-1]))
        meta["init_kind"] = init_kind
        if len(metrics) >= 2 and draw(st.integers(0, 3)) == 0:
            # one of several metrics carries a constant term (w * m + c): the multiplier of its 'objective <= metric' constraint
            # then contributes to the constant of the certificate
            j = draw(st.integers(0, len(metrics) - 2))
            metrics[j] = em.expr("lin", [[metrics[j], draw(st.sampled_from([0.5, 0.25, 1]))]], draw(st.sampled_from([0.2, 0.05, 1.0])))
            meta["tags"].append("metric_with_constant")
        for m in metrics:
            em.emit("metric", m, draw(st.one_of(st.none(), st.none(), st.just("perf"))))
        if len(metrics) > 1:
            meta["tags"].append("multi_metric")
        points_for_extras = pts + grads
        exprs_for_extras = [e0] + metrics

    # ------------------------------------------------------------------------------------------------------
    # extras that keep the model bounded and feasible
    # ------------------------------------------------------------------------------------------------------
    if allow_extras:
        nextra = draw(st.integers(0, 3))
        for _ in range(nextra):
            kinds = ["cons_const", "cons_fn", "lmi_t", "unused", "redundant_lmi", "useless_partition", "cons_eq", "nonsym_lmi",
                     "cons_fn_active"]
            if allow_redeclare:
                kinds.append("redeclare")
            kind = draw(st.sampled_from(kinds))
            if kind == "cons_const":
                # a valid bound with a constant term: |p|^2 <= big  or  <p,q> <= big
                p, q = draw(st.sampled_from(points_for_extras)), draw(st.sampled_from(points_for_extras))
                e = em.expr("dot", p, q)
                em.emit("cons", "pep", e, "<=", round(draw(pos) * 50, 2), draw(st.one_of(st.none(), st.just("cap"))))
                meta["tags"].append("user_constraint_const")
            elif kind == "cons_fn":
                p = draw(st.sampled_from(points_for_extras))
                e = em.expr("sq", p)
                tgt = meta.get("comp", main_f) if draw(st.booleans()) else main_f
                em.emit("cons", ["f", tgt], e, "<=", round(draw(pos) * 50, 2))
                meta["tags"].append("function_constraint")
            elif kind == "cons_fn_active":
                # an ACTIVE function-level constraint with a constant term: the quantity bounded by the initial condition
                # (<= R with R >= 0.2) is bounded by 0.1 on the function, so this constraint carries the multiplier
                tgt = meta.get("comp", main_f) if draw(st.booleans()) else main_f
                em.emit("cons", ["f", tgt], exprs_for_extras[0], "<=", 0.1)
                meta["tags"].append("function_constraint")
                meta["tags"].append("active_function_constraint")
            elif kind == "cons_eq":
                # an equality that pins a fresh leaf expression to a multiple of an existing expression (feasible)
                t = em.emit("new_expr")["E"][0]
                src = draw(st.sampled_from(exprs_for_extras))
                s2 = em.expr("lin", [[src, draw(small_w)]], 0)
                em.emit("cons", "pep", t, "==", ["e", s2])
                meta["tags"].append("user_equality")
            elif kind == "lmi_t" and allow_lmi:
                # [[e, t], [t, 1]] >= 0  <=>  t^2 <= e : t is a fresh leaf; add metric-irrelevant but active LMI
                t = em.emit("new_expr")["E"][0]
                src = draw(st.sampled_from(exprs_for_extras[1:] or exprs_for_extras))
                where = draw(st.sampled_from(["pep", "pep", ["f", main_f]]))
                em.emit("lmi", where, [[["e", src], ["e", t]], [["e", t], ["n", 1]]], draw(st.booleans()),
                        draw(st.one_of(st.none(), st.just("schur"))))
                # make it matter: cap the objective by t as an additional metric (t <= sqrt(src) is then active)
                if draw(st.booleans()):
                    em.emit("metric", t)
                    meta["tags"].append("lmi_metric")
                meta["tags"].append("lmi")
            elif kind == "redundant_lmi" and allow_lmi:
                size = draw(st.integers(1, 3))
                p = draw(st.sampled_from(points_for_extras))
                e = em.expr("sq", p)
                rows = [[(["e", e] if i == j else ["n", 0]) for j in range(size)] for i in range(size)]
                em.emit("lmi", draw(st.sampled_from(["pep", ["f", main_f], "none"])), rows, False, None)
                meta["tags"].append("lmi")
            elif kind == "nonsym_lmi" and allow_lmi and allow_nonsym_lmi:
                # [[a, <p,q>], [<q,p> written differently, b]] : entries (0,1) and (1,0) are different expressions
                variant = draw(st.integers(0, 2))
                if variant == 2:
                    # active, with different constants in the mirrored entries: [[src, t], [u + c, 1]], metric t
                    # (t = u + c at every feasible point, so the multipliers of the two entries meet different constants)
                    t = em.emit("new_expr")["E"][0]
                    u = em.emit("new_expr")["E"][0]
                    uc = em.expr("lin", [[u, 1]], draw(st.sampled_from([1, 0.5, 2, -0.5])))
                    src = draw(st.sampled_from(exprs_for_extras[1:] or exprs_for_extras))
                    em.emit("lmi", "pep", [[["e", src], ["e", t]], [["e", uc], ["n", 1]]], False, None)
                    em.emit("metric", t)
                elif variant == 1:
                    p, q = draw(st.sampled_from(points_for_extras)), draw(st.sampled_from(points_for_extras))
                    a = em.expr("sq", p)
                    b = em.expr("sq", q)
                    t = em.emit("new_expr")["E"][0]
                    c01 = em.expr("dot", p, q)
                    em.emit("lmi", "pep", [[["e", a], ["e", c01]], [["e", t], ["e", b]]], False, None)
                else:
                    # active version: [[src, t], [t2, 1]] with two different leaves t, t2 and metric t
                    t = em.emit("new_expr")["E"][0]
                    t2 = em.emit("new_expr")["E"][0]
                    src = draw(st.sampled_from(exprs_for_extras[1:] or exprs_for_extras))
                    em.emit("lmi", "pep", [[["e", src], ["e", t]], [["e", t2], ["n", 1]]], False, None)
                    em.emit("metric", t)
                meta["tags"].append("nonsym_lmi")
                meta["tags"].append("lmi")
            elif kind == "unused":
                # objects that are created but never added to the model
                what = draw(st.sampled_from(["point", "expr", "constraint", "lmi"]))
                if what == "point":
                    em.emit("new_point")
                elif what == "expr":
                    em.emit("new_expr")
                elif what == "constraint":
                    e = em.expr("sq", draw(st.sampled_from(points_for_extras)))
                    em.emit("cons", "none", e, "<=", 1)
                elif allow_lmi:
                    e = em.expr("sq", draw(st.sampled_from(points_for_extras)))
                    em.emit("lmi", "none", [[["e", e]]], False, None)
                meta["tags"].append("unused_objects")
            elif kind == "redeclare" and em.n["C"] > 0:
                em.emit("redeclare", draw(st.sampled_from(["pep", ["f", main_f]])), draw(st.integers(0, em.n["C"] - 1)))
                meta["tags"].append("redeclared")
            elif kind == "useless_partition" and allow_partition:
                d = draw(st.integers(1, 3))
                b = em.emit("partition", d)["B"][0]
                for _k in range(draw(st.integers(0, 2))):
                    em.emit("block", b, draw(st.sampled_from(points_for_extras)), draw(st.integers(0, d - 1)))
                meta["tags"].append("partition")
    meta["tags"] = sorted(set(meta["tags"]))
    meta["n_instr"] = len(em.instrs)
    return {"instrs": em.instrs, "meta": meta}


@st.composite
def solve_options(draw, wrappers=("cvxpy",), solvers=("CLARABEL",), allow_drh=False, rets=("dual", "primal")):
    o = {"wrapper": draw(st.sampled_from(list(wrappers))), "solver": draw(st.sampled_from(list(solvers))),
         "verbose": draw(st.sampled_from([0, 0, 0, 1])), "ret": draw(st.sampled_from(list(rets)))}
    if allow_drh and draw(st.booleans()):
        o["drh"] = draw(st.sampled_from(["trace", "logdet0", "logdet1", "logdet2", "logdet3"]))
        o["tol_dr"] = draw(st.sampled_from([1e-4, 1e-5, 1e-3, 1e-2, 1e-6, 1e-1]))
        o["eig_reg"] = draw(st.sampled_from([1e-3, 1e-5, 1e-2, 1e-4, 1e-1, 1e-6]))
    return o


@st.composite
def model_autostat(draw):
    """ConvexQG / RsiEb model that never declares a stationary point: the class creates one (a leaf point and a leaf
    expression) while its class constraints are generated, i.e. after the objective leaf exists.  Bounded through the
    min-of-metrics: the first metric is the quantity bounded by the initial condition."""
    em = Emitter()
    cls = draw(st.sampled_from(["ConvexQGFunction", "RsiEbFunction"]))
    params = draw(class_params(cls))
    f = em.func(cls, params, None, False)
    x0 = em.init_point(None)
    x1 = em.emit("new_point")["P"][0]
    g0, f0 = em.oracle(f, x0)
    g1, f1 = em.oracle(f, x1)
    pts = [x0, x1, g0, g1]
    for _ in range(draw(st.integers(0, 2))):
        gamma = draw(frac)
        g, fv, x = em.gd(f, draw(st.sampled_from([x0, x1])), gamma)
        pts += [g, x]
    e0 = em.expr("sqdist", x0, x1)
    em.emit("cons", "init", e0, "<=", draw(pos), None)
    em.emit("metric", e0, None)
    other = draw(st.sampled_from(["dot", "fdiff", "sq"]))
    if other == "dot":
        m = em.expr("dot", g0, draw(st.sampled_from(pts)))
    elif other == "fdiff":
        m = em.expr("fdiff", f0, f1)
    else:
        m = em.expr("sq", draw(st.sampled_from(pts)))
    em.emit("metric", m, None)
    return {"instrs": em.instrs, "meta": {"cls": cls, "tags": ["auto_stationary", "multi_metric"], "n_instr": len(em.instrs)}}


@st.composite
def model_big(draw):
    """> 128 scalar rows: gradient descent with 11-13 steps on a smooth (strongly) convex function."""
    em = Emitter()
    cls = draw(st.sampled_from(["SmoothConvexFunction", "SmoothStronglyConvexFunction"]))
    params = draw(class_params(cls))
    L = float(params["L"])
    f = em.func(cls, params, None, False)
    x0 = em.init_point(None)
    xs, fs = em.stat(f, None)
    x = x0
    n = draw(st.integers(11, 13))
    for _ in range(n):
        g, fv, x = em.gd(f, x, round(draw(frac) * 1.5 / L, 4))
    gN, fN = em.oracle(f, x)
    e0 = em.expr("sqdist", x0, xs)
    em.emit("cons", "init", e0, "<=", draw(pos), None)
    em.emit("metric", em.expr("fdiff", fN, fs), None)
    if draw(st.booleans()):
        t = em.emit("new_expr")["E"][0]
        em.emit("lmi", "pep", [[["e", e0], ["e", t]], [["e", t], ["n", 1]]], False, None)
    return {"instrs": em.instrs, "meta": {"cls": cls, "tags": ["big"], "n_instr": len(em.instrs)}}


@st.composite
def model_lmi_order(draw):
    """LMIs created but not added, added in non-creation order, function-level LMIs next to class LMIs."""
    base = draw(model(max_steps=2, allow_extras=False, allow_composite=False,
                      classes=["SmoothStronglyConvexFunction", "SymmetricLinearOperator", "SkewSymmetricLinearOperator",
                               "SmoothStronglyConvexQuadraticFunction", "SmoothConvexFunction", "LinearOperator"]))
    em = Emitter()
    for ins in base["instrs"]:
        em.emit(*ins)
    nE = em.n["E"]
    # expressions bounded by construction: the metrics / initial condition expressions are the last ones created
    srcs = list(range(max(0, nE - 3), nE))
    specs = []
    for _ in range(draw(st.integers(2, 4))):
        src = draw(st.sampled_from(srcs))
        t = em.emit("new_expr")["E"][0]
        specs.append((src, t))
    order = draw(st.permutations(list(range(len(specs)))))
    # create all as unattached PSDMatrix objects first?  prog creates at declaration: emulate "created, never added"
    for k, (src, t) in enumerate(specs):
        if draw(st.integers(0, 3)) == 0:
            em.emit("lmi", "none", [[["e", src], ["e", t]], [["e", t], ["n", 1]]], False, None)
    for k in order:
        src, t = specs[k]
        where = draw(st.sampled_from(["pep", "pep", ["f", 0]]))
        em.emit("lmi", where, [[["e", src], ["e", t]], [["e", t], ["n", 1]]], draw(st.booleans()), None)
        if draw(st.booleans()):
            em.emit("metric", t, None)
    return {"instrs": em.instrs, "meta": {"cls": base["meta"]["cls"], "tags": ["lmi_order", "lmi"], "n_instr": len(em.instrs)}}


@st.composite
def wild_model(draw, max_len=14):
    """A random legal instruction soup (all classes, all steps, constraints on PEP / functions / composites, LMIs,
    partitions ...) made bounded by a ball constraint over every leaf point and metrics that are inner products only."""
    from vf.checks.c05 import soup
    raw = draw(soup(max_len=max_len))
    em = Emitter()
    for ins in raw:
        if ins[0] in ("metric", "redeclare"):
            continue
        if ins[0] == "cons" and ins[1] == "init":
            ins = list(ins)
            ins[1] = "pep"
        em.emit(*ins)
    nP = em.n["P"]
    for _ in range(draw(st.integers(1, 3))):
        k = draw(st.sampled_from(["sq", "sqdist", "dot"]))
        if k == "sq":
            em.expr("sq", draw(st.integers(0, nP - 1)))
        else:
            em.expr(k, draw(st.integers(0, nP - 1)), draw(st.integers(0, nP - 1)))
        # index -1 = the expression just created (soup instructions may be skipped at run time, so absolute
        # register numbers of the emitter are only upper bounds here)
        em.emit("metric", -1, None)
    em.emit("ball_all", draw(st.sampled_from([1, 0.25, 4])))
    cls = sorted(set(i[1] for i in em.instrs if i[0] == "func"))
    return {"instrs": em.instrs, "meta": {"cls": "+".join(cls)[:60], "tags": ["wild"], "n_instr": len(em.instrs)}}
