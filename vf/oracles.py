"""Oracles shared by the solve-based checks (C01, C02, C11, C13, C14): independent re-derivation of the dual
certificate and of the primal instance from what PEPit exposes, using vf.sem only."""
import numpy as np

from vf import sem, record, prog

# tolerance classes (scale-relative): k * (1 + |tau| + max multiplier ...)
TOL = {"CLARABEL": 2e-5, "SCS": 2e-2, "MOSEK": 2e-5}


def solver_class(opts):
    if opts.get("wrapper", "cvxpy") == "mosek":
        return "MOSEK"
    s = opts.get("solver", "CLARABEL")
    return "SCS" if s in (None, "SCS") else "CLARABEL"


class Observation(object):
    pass


def solve_observed(env, opts):
    """Run pep.solve through the recording wrapper; returns an Observation."""
    record.install(build_only=False)
    record.reset_log()
    ob = Observation()
    ob.opts = dict(opts)
    ob.exc = None
    kw = prog.decode_solve_options(opts)
    with prog.quiet():
        try:
            if kw.get("wrapper") == "mosek":
                # MosekWrapper against the stand-in module (no recording wrapper on this path)
                from vf import mosek_env
                kw.pop("wrapper")
                kw.pop("solver", None)
                ob.result = mosek_env.solve(env.pep, **kw)
            else:
                ob.result = env.pep.solve(**kw)
        except Exception as exc:  # noqa
            ob.result = None
            ob.exc = exc
    ob.wrapper = env.pep.wrapper
    if type(ob.wrapper).__name__ == "MosekWrapper":
        ob.events = []
        ob.sent_constraints = list(env.pep._list_of_constraints_sent_to_wrapper)
        ob.sent_lmis = list(env.pep._list_of_psd_sent_to_wrapper)
        ob.status = getattr(getattr(ob.wrapper, "task", None), "cvxpy_status", None)
        if ob.result is not None and ob.result != ob.result:
            ob.result = None          # NaN from a failed stand-in solve
            ob.status = ob.status or "failed"
    else:
        ob.events = list(getattr(ob.wrapper, "events", []))
        ob.sent_constraints, ob.sent_lmis = record.sent(ob.events)
        ob.status = getattr(getattr(ob.wrapper, "prob", None), "status", None)
    return ob


def solver_gave_up(ob, ctx):
    """True (and counted as inconclusive) when pep.solve raised because the numerical solver failed inside the
    dimension-reduction re-solve (status not optimal): a solver outcome, not a PEPit outcome.
    Any other exception is re-raised for the crash bucketing of the runner."""
    if ob.exc is None:
        return False
    if type(ob.exc).__name__ == "SolverError":
        ctx.label("inconclusive:SolverError")
        return True
    if type(ob.wrapper).__name__ == "MosekWrapper" and ob.status != "optimal":
        ctx.label("inconclusive:standin-status-%s" % ob.status)
        return True
    if ob.opts.get("drh") and type(ob.exc).__name__ == "LinAlgError":
        # the log-det step inverts G + eps I: with a Gram matrix of size 1e8 and more (a numerically unbounded model on which the
        # solver nevertheless reports 'optimal') the sum is singular in floating point - a solver outcome, not a PEPit one
        try:
            G = np.asarray(ob.wrapper.get_primal_variables()[0], dtype=float)
            if float(np.max(np.abs(G))) > 1e8:
                ctx.label("inconclusive:heuristic-on-a-numerically-unbounded-gram")
                return True
        except Exception:  # noqa
            pass
    if ob.opts.get("drh") and ob.status not in ("optimal", None):
        # (with or without a Gram matrix: after an 'optimal_inaccurate' SCS re-solve the Gram matrix can have eigenvalues of
        # 1e11, and the next logdet step then fails to invert G + eps I)
        ctx.label("inconclusive:heuristic-resolve-status-%s" % ob.status)
        return True
    raise ob.exc


def leaf_points():
    from PEPit import Point
    return list(Point.list_of_leaf_points)


def leaf_exprs():
    from PEPit import Expression
    return list(Expression.list_of_leaf_expressions)


def certificate(pep, sent_constraints, sent_lmis, use_entry_duals=True):
    """Residual functional R = objective - sum lambda_i c_i + <S, G> + sum_j <Lambda_j, M_j>.

    Returns dict(const, max_nonconst, min_ineq_dual, min_eig_S, min_eig_L, scale, n_terms)."""
    pts = leaf_points()
    S = np.asarray(pep.residual, dtype=float)
    terms = [(1.0, sem.functional(pep.objective))]
    lam_max = 0.0
    min_ineq = np.inf
    for c in sent_constraints:
        lam = float(c.eval_dual())
        lam_max = max(lam_max, abs(lam))
        if c.equality_or_inequality == "inequality":
            min_ineq = min(min_ineq, lam)
        terms.append((-lam, sem.functional(c.expression)))
    # <S, G>
    sg = {}
    n = len(pts)
    if S.shape != (n, n):
        return {"shape_error": "residual shape %r for %d leaf points" % (S.shape, n)}
    for a in range(n):
        for b in range(n):
            if S[a, b] != 0:
                key = ("G", pts[a], pts[b]) if id(pts[a]) <= id(pts[b]) else ("G", pts[b], pts[a])
                sg[key] = sg.get(key, 0.0) + float(S[a, b])
    # merge keys that denote the same pair (identity based) -> use fun_lincomb
    terms.append((1.0, sg))
    min_eig_L = np.inf
    L_max = 0.0
    entry_sym_err = 0.0
    for m in sent_lmis:
        Lm = np.asarray(m.eval_dual(), dtype=float)
        if Lm.shape != tuple(m.shape):
            return {"shape_error": "LMI dual shape %r for LMI of shape %r" % (Lm.shape, m.shape)}
        W = Lm
        if use_entry_duals and getattr(m, "entries_dual_variable_value", None) is not None:
            # multipliers of the entry equalities (exposed by the library for LMIs that are not symmetric as written):
            # their symmetric part must be the PSD multiplier of the LMI
            W = np.asarray(m.entries_dual_variable_value, dtype=float)
            if W.shape != Lm.shape:
                return {"shape_error": "entries_dual_variable_value has shape %r for an LMI of shape %r" % (W.shape, m.shape)}
            entry_sym_err = max(entry_sym_err, float(np.max(np.abs((W + W.T) / 2 - (Lm + Lm.T) / 2))) if W.size else 0.0)
        L_max = max(L_max, float(np.max(np.abs(Lm))) if Lm.size else 0.0)
        if Lm.size:
            min_eig_L = min(min_eig_L, float(np.min(np.linalg.eigvalsh((Lm + Lm.T) / 2))))
            asym = float(np.max(np.abs(Lm - Lm.T)))
        for a in range(m.shape[0]):
            for b in range(m.shape[1]):
                if W[a, b] != 0:
                    terms.append((float(W[a, b]), sem.functional(m.matrix_of_expressions[a, b])))
    R = sem.fun_lincomb(terms)
    const = R.get(("1",), 0.0)
    nonconst = max([abs(v) for k, v in R.items() if k != ("1",)] + [0.0])
    worst = None
    for k, v in R.items():
        if k != ("1",) and abs(v) == nonconst and nonconst > 0:
            worst = k[0]
    return {
        "R": R, "const": const, "max_nonconst": nonconst, "worst_kind": worst,
        "min_ineq_dual": (min_ineq if min_ineq != np.inf else 0.0),
        "min_eig_S": float(np.min(np.linalg.eigvalsh((S + S.T) / 2))) if n else 0.0,
        "S_asym": float(np.max(np.abs(S - S.T))) if n else 0.0,
        "min_eig_L": (min_eig_L if min_eig_L != np.inf else 0.0),
        "scale": 1.0 + lam_max + (float(np.max(np.abs(S))) if n else 0.0) + L_max,
        "entry_sym_err": entry_sym_err,
        "n_terms": len(terms),
    }


def leaf_valuation():
    """Valuation of all leaves from their eval() (after a finite solve)."""
    val = sem.Valuation()
    for p in leaf_points():
        val.set(p, np.asarray(p.eval(), dtype=float))
    for e in leaf_exprs():
        val.set(e, float(e.eval()))
    return val


def psd_projection(G):
    S = (G + G.T) / 2
    w, V = np.linalg.eigh(S)
    return (V * np.maximum(w, 0)) @ V.T


def lmi_value(m, val):
    out = np.zeros(m.shape)
    mag = 0.0
    for a in range(m.shape[0]):
        for b in range(m.shape[1]):
            v, g = sem.val_expr(m.matrix_of_expressions[a, b], val)
            out[a, b] = v
            mag = max(mag, g)
    return out, mag


def residual_after_entry_equalities(R, lmis):
    """Least-squares fit of the non-constant part of R by the entry equalities e_ab - e_ba = 0 that a
    non-symmetric-as-written LMI implies (their multipliers are not exposed by the library).
    Returns (max abs non-constant coefficient after the fit, constant after the fit)."""
    ds = []
    for m in lmis:
        for a in range(m.shape[0]):
            for b in range(a):
                d = sem.fun_lincomb([(1.0, sem.functional(m.matrix_of_expressions[a, b])),
                                     (-1.0, sem.functional(m.matrix_of_expressions[b, a]))])
                if not sem.fun_is_trivial(d, 1e-14):
                    ds.append(d)
    if not ds:
        return None
    pts, exprs = {}, {}
    for fun in [R] + ds:
        a, b = sem.leaves_of_fun(fun)
        for x in a:
            pts[id(x)] = x
        for x in b:
            exprs[id(x)] = x
    basis = sem.Basis(list(pts.values()), list(exprs.values()))
    r = basis.vec(R)
    D = np.array([basis.vec(d) for d in ds]).T
    # fit only the non-constant coordinates
    alpha, *_ = np.linalg.lstsq(D[:-1, :], r[:-1], rcond=None)
    rest = r - D @ alpha
    return float(np.max(np.abs(rest[:-1]))) if len(rest) > 1 else 0.0, float(rest[-1])


# ----------------------------------------------------------------------------------------------------------------
# dimension-reduction heuristic: what each back-end was asked to minimise
# ----------------------------------------------------------------------------------------------------------------
import contextlib


@contextlib.contextmanager
def heuristic_spy():
    """While active, every call wrapper.heuristic(W) of either back-end is recorded on the wrapper instance
    (list `_vf_heur`): the weight it was given and the objective the back-end holds right after the call
    (cvxpy: value of the problem's objective at two fixed symmetric matrices; MOSEK: the objective data of the task).
    Run-time wrapping from the harness, nothing in the repository is touched."""
    from PEPit.wrappers.cvxpy_wrapper import CvxpyWrapper
    from PEPit.wrappers.mosek_wrapper import MosekWrapper
    o_c, o_m = CvxpyWrapper.heuristic, MosekWrapper.heuristic

    def h_cvxpy(self, weight):
        out = o_c(self, weight)
        W = np.array(weight, dtype=float, copy=True)
        n = W.shape[0]
        probes = []
        try:
            old = self.G.value
            rs = np.random.RandomState(n)
            for _ in range(2):
                B = rs.randint(-3, 4, size=(n, n)).astype(float)
                G0 = B @ B.T
                self.G.value = G0
                probes.append((G0, float(self.prob.objective.value)))
            self.G.value = old
        except Exception as exc:  # noqa
            probes = [("error", repr(exc))]
        self.__dict__.setdefault("_vf_heur", []).append({"side": "cvxpy", "W": W, "probes": probes})
        return out

    def h_mosek(self, weight):
        out = o_m(self, weight)
        t = self.task
        self.__dict__.setdefault("_vf_heur", []).append({
            "side": "mosek", "W": np.array(weight, dtype=float, copy=True),
            "barC": {j: np.array(M, copy=True) for j, M in getattr(t, "barC", {}).items()},
            "c": dict(getattr(t, "c", {})), "sense": getattr(t, "sense", None)})
        return out
    CvxpyWrapper.heuristic, MosekWrapper.heuristic = h_cvxpy, h_mosek
    try:
        yield
    finally:
        CvxpyWrapper.heuristic, MosekWrapper.heuristic = o_c, o_m


def check_heuristic_objective(ctx, wrapper, prefix=""):
    """both back-ends must minimise <W, G> for the weight W they were handed (same SDP after the heuristic)"""
    for rec in getattr(wrapper, "_vf_heur", []):
        W = rec["W"]
        Ws = (W + W.T) / 2
        # W = inv(G + eps I) is symmetric only up to rounding (1e-8 relative for an ill-conditioned G); a back-end may read
        # one triangle or the symmetric part, so the comparison allows for the asymmetry of the W it was given
        scale = 1.0 + float(np.max(np.abs(W))) + 1e9 * float(np.max(np.abs(W - W.T)))
        if rec["side"] == "cvxpy":
            for G0, v in rec["probes"]:
                if isinstance(G0, str):
                    ctx.label("heuristic-objective:probe-unavailable")
                    continue
                want = float(np.sum(Ws * G0))
                if abs(v - want) > 1e-9 * scale * (1 + float(np.max(np.abs(G0)))) * W.shape[0] ** 2:
                    ctx.fail(prefix + "heuristic-objective-not-weight", "cvxpy back-end: after heuristic(W) the objective takes the "
                             "value %.9g at a test matrix where <W, G> = %.9g" % (v, want))
                    return
        else:
            import sys
            mosek = sys.modules.get("mosek")
            C0 = rec["barC"].get(0)
            if C0 is None:
                ctx.fail(prefix + "heuristic-objective-not-weight", "MOSEK back-end: heuristic(W) set no objective on the Gram variable")
                return
            err = float(np.max(np.abs((C0 + C0.T) / 2 - Ws)))
            if err > 1e-9 * scale:
                i, j = np.unravel_index(np.argmax(np.abs((C0 + C0.T) / 2 - Ws)), Ws.shape)
                ctx.fail(prefix + "heuristic-objective-not-weight", "MOSEK back-end: after heuristic(W) the task minimises <C, G> with "
                         "C[%d,%d] = %.9g where W[%d,%d] = %.9g (the cvxpy back-end minimises <W, G>)" % (i, j, C0[i, j], i, j, Ws[i, j]))
                return
            if any(abs(v) > 0 for j, v in rec["c"].items()) or any(np.max(np.abs(M)) > 0 for j, M in rec["barC"].items() if j != 0):
                ctx.fail(prefix + "heuristic-objective-has-other-terms", "MOSEK back-end: the heuristic objective still has terms "
                         "besides <W, G> (scalar coefficients %r)" % {j: v for j, v in rec["c"].items() if v})
                return
            if mosek is not None and rec["sense"] is not None and rec["sense"] != mosek.objsense.minimize:
                ctx.fail(prefix + "heuristic-objective-sense", "MOSEK back-end: the heuristic objective is not minimised")
                return
        ctx.label("heuristic-objective-checked:" + rec["side"])


def solver_point_infeasible(wrapper, ctx, tol=1e-6):
    """True (counted as inconclusive) when the point returned by the numerical solver violates the solver's OWN problem -
    cvxpy's residuals of the constraints it was given, PSD-ness of the Gram variable included - by more than `tol` although
    the status says optimal (seen with CLARABEL on infeasible soups bounded only by large caps: min eigenvalue of G -1.4e-3).
    Independent of PEPit: a constraint that PEPit mis-states or mis-sends is still satisfied by the solver's point."""
    prob = getattr(wrapper, "prob", None)
    if prob is None:
        prob = getattr(getattr(wrapper, "task", None), "cvxpy_problem", None)     # MOSEK stand-in: its inner problem
    if prob is None:
        return False
    worst = 0.0
    try:
        for c in prob.constraints:
            v = c.violation()
            worst = max(worst, float(np.max(v)))
    except Exception:  # noqa
        return False
    if worst > tol:
        ctx.label("inconclusive:solver-point-violates-its-own-problem")
        ctx.observe("solver_own_violation", worst)
        return True
    return False
