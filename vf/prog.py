"""Programs as data: a JSON instruction list interpreted against the real PEPit through its public API.

Registers are typed pools (functions F, points P, expressions E, constraints C, LMIs M, partitions B);
an integer reference is taken modulo the pool size (construction instead of rejection); an instruction whose
pool is empty is skipped and counted.  The interpreter keeps its own ledger of what the program declared.
"""
import contextlib
import io
import math
import os
import sys

import numpy as np


def num(v):
    """decode a JSON number (inf is stored as a string)."""
    if isinstance(v, str):
        return float(v)
    return v


FUNCTION_CLASSES = [
    "ConvexFunction", "StronglyConvexFunction", "SmoothFunction", "SmoothConvexFunction",
    "SmoothStronglyConvexFunction", "SmoothConvexLipschitzFunction", "ConvexLipschitzFunction",
    "ConvexIndicatorFunction", "ConvexSupportFunction", "ConvexQGFunction", "RsiEbFunction",
    "SmoothStronglyConvexQuadraticFunction", "BlockSmoothConvexFunction",
]
OPERATOR_CLASSES = [
    "MonotoneOperator", "StronglyMonotoneOperator", "CocoerciveOperator", "CocoerciveStronglyMonotoneOperator",
    "LipschitzOperator", "LipschitzStronglyMonotoneOperator", "NegativelyComonotoneOperator",
    "NonexpansiveOperator", "LinearOperator", "SymmetricLinearOperator", "SkewSymmetricLinearOperator",
]
ALL_CLASSES = FUNCTION_CLASSES + OPERATOR_CLASSES


def get_class(name):
    import PEPit.functions as F
    import PEPit.operators as O
    if hasattr(F, name):
        return getattr(F, name)
    return getattr(O, name)


@contextlib.contextmanager
def quiet():
    """Silence PEPit / solver chatter (python-level and fd-level)."""
    sys.stdout.flush()
    sys.stderr.flush()
    saved = os.dup(1)
    saved2 = os.dup(2)
    devnull = os.open(os.devnull, os.O_WRONLY)
    os.dup2(devnull, 1)
    os.dup2(devnull, 2)      # cvxpy's verbose mode logs through the logging module (stderr)
    old = sys.stdout
    sys.stdout = io.StringIO()
    try:
        yield
    finally:
        sys.stdout = old
        os.dup2(saved, 1)
        os.dup2(saved2, 2)
        os.close(saved)
        os.close(saved2)
        os.close(devnull)


class Env(object):
    def __init__(self):
        self.pep = None
        self.F = []          # functions (leaf and composite)
        self.Fmeta = []      # dict(cls, params, leaf)
        self.P = []
        self.E = []
        self.C = []
        self.M = []
        self.B = []
        self.skipped = 0
        self.features = set()
        # ledger of declarations made through the program (objects, by identity)
        self.declared_constraints = []   # (where, Constraint)
        self.declared_lmis = []          # (where, PSDMatrix or None-if-list, raw spec)
        self.lmi_raw = []                # (PSDMatrix, matrix as written by the user)
        self.altered_arguments = []      # descriptions of user arguments that a declaration modified
        self.declared_metrics = []
        self.step_constraints = []       # (function, Constraint) observed as list deltas around step calls
        self.results = []                # return values of solve instructions
        self.errors = []                 # (instr index, exception) for instructions expected to be legal
        self.held = []                   # objects evaluated post-solve: (label, obj)

    def f(self, i):
        return self.F[i % len(self.F)]

    def p(self, i):
        return self.P[i % len(self.P)]

    def e(self, i):
        return self.E[i % len(self.E)]


class Interp(object):
    """Executes instructions one by one (so that stateful checks can interleave their own observations)."""

    def __init__(self, solve_hook=None):
        from PEPit import PEP
        with quiet():
            self.env = Env()
            self.env.pep = PEP()
        self.solve_hook = solve_hook

    # ------------------------------------------------------------------------------------------------------
    def run(self, instrs):
        for ins in instrs:
            self.step(ins)
        return self.env

    def step(self, ins):
        env = self.env
        op = ins[0]
        handler = getattr(self, "op_" + op)
        with quiet():
            return handler(*ins[1:])

    # ------------------------------------------------------------------------------------------------------
    # declarations
    # ------------------------------------------------------------------------------------------------------
    def func_kwargs(self, cls, params):
        """constructor keyword arguments of a class for a parameter dict of the generators"""
        env = self.env
        kw = {k: num(v) for k, v in params.items() if k not in ("partition", "Ls", "v")}
        if cls == "BlockSmoothConvexFunction":
            if not env.B:
                self.op_partition(max(1, len(params.get("Ls", [1.0]))))
            part = env.B[params.get("partition", 0) % len(env.B)]
            Ls = [num(x) for x in params.get("Ls", [1.0])]
            d = part.get_nb_blocks()
            Ls = (Ls * d)[:d]
            kw = {"partition": part, "L": Ls}
        return kw

    def op_func(self, cls, params, name=None, direct=False):
        env = self.env
        kw = self.func_kwargs(cls, params)
        klass = get_class(cls)
        if direct:
            f = klass(**kw)
        else:
            f = env.pep.declare_function(klass, **kw)
        if name:
            f.set_name(name)
        env.F.append(f)
        env.Fmeta.append({"cls": cls, "params": params, "leaf": True})
        env.features.add("class:" + cls)
        return f

    def op_compose(self, terms):
        """F_new = sum_k w_k * F[i_k] built with the overloaded operators (weights may be 0 or cancel)."""
        env = self.env
        if not env.F:
            env.skipped += 1
            return None
        g = None
        for i, w in terms:
            fi = env.f(i)
            t = fi if w == 1 else (w * fi if isinstance(w, int) or abs(w) < 1 else fi * w)
            g = t if g is None else g + t
        if any(g is h for h in env.F):
            g = g * 1        # a single term of weight 1: still a new (composite) function object
        env.F.append(g)
        env.Fmeta.append({"cls": "composite", "terms": terms, "leaf": False})
        env.features.add("composite")
        return g

    def op_partition(self, d, ctor=False):
        """ctor=True: the partition is created with the class constructor (documented) instead of through the problem"""
        env = self.env
        if ctor:
            from PEPit import BlockPartition
            b = BlockPartition(d=int(d))
        else:
            b = env.pep.declare_block_partition(d=int(d))
        env.B.append(b)
        env.features.add("partition")
        return b

    def op_init_point(self, name=None):
        env = self.env
        x = env.pep.set_initial_point(name=name)
        env.P.append(x)
        return x

    def op_new_point(self):
        from PEPit import Point
        x = Point()
        self.env.P.append(x)
        return x

    def op_new_expr(self):
        from PEPit import Expression
        e = Expression()
        self.env.E.append(e)
        return e

    def op_stat(self, fi, name=None):
        env = self.env
        if not env.F:
            env.skipped += 1
            return None
        x, g, f = env.f(fi).stationary_point(return_gradient_and_function_value=True)
        if name:
            x.set_name(name)
        env.P.append(x)
        env.E.append(f)
        env.features.add("stationary")
        return x

    def op_fixed(self, fi):
        env = self.env
        if not env.F:
            env.skipped += 1
            return None
        x, _, fx = env.f(fi).fixed_point()
        env.P.append(x)
        env.E.append(fx)
        env.features.add("fixed_point")
        return x

    def op_lincomb(self, terms):
        env = self.env
        if not env.P:
            env.skipped += 1
            return None
        acc = None
        for i, c in terms:
            t = env.p(i) if c == 1 else c * env.p(i)
            acc = t if acc is None else acc + t
        env.P.append(acc)
        return acc

    def op_oracle(self, fi, pi):
        env = self.env
        if not env.F or not env.P:
            env.skipped += 1
            return None
        g, f = env.f(fi).oracle(env.p(pi))
        env.P.append(g)
        env.E.append(f)
        return g, f

    def op_grad(self, fi, pi):
        env = self.env
        if not env.F or not env.P:
            env.skipped += 1
            return None
        g = env.f(fi).gradient(env.p(pi))
        env.P.append(g)
        return g

    def op_value(self, fi, pi):
        env = self.env
        if not env.F or not env.P:
            env.skipped += 1
            return None
        v = env.f(fi).value(env.p(pi))
        env.E.append(v)
        return v

    def op_gd(self, fi, pi, gamma):
        """x_new = P - gamma * grad F(P)"""
        env = self.env
        if not env.F or not env.P:
            env.skipped += 1
            return None
        x = env.p(pi)
        g, f = env.f(fi).oracle(x)
        xn = x - gamma * g
        env.P.append(g)
        env.E.append(f)
        env.P.append(xn)
        return xn

    def op_avg(self, fi, pi, a):
        """Krasnoselskii-Mann type step: x_new = (1-a) x + a F(x)"""
        env = self.env
        if not env.F or not env.P:
            env.skipped += 1
            return None
        x = env.p(pi)
        g = env.f(fi).gradient(x)
        xn = (1 - a) * x + a * g
        env.P.append(g)
        env.P.append(xn)
        return xn

    def op_adjoint(self, fi, pi):
        """evaluate the transpose of a LinearOperator"""
        env = self.env
        if not env.F or not env.P:
            env.skipped += 1
            return None
        f = env.f(fi)
        if not hasattr(f, "T"):
            env.skipped += 1
            return None
        g = f.T.gradient(env.p(pi))
        env.P.append(g)
        env.features.add("adjoint")
        return g

    def op_set_v(self, fi):
        """infimal displacement vector of a NonexpansiveOperator"""
        from PEPit import Point
        env = self.env
        if not env.F:
            env.skipped += 1
            return None
        f = env.f(fi)
        if type(f).__name__ != "NonexpansiveOperator":
            env.skipped += 1
            return None
        v = Point()
        f.v = v
        env.P.append(v)
        env.features.add("nonexpansive_v")
        return v

    def op_block(self, bi, pi, k):
        env = self.env
        if not env.B or not env.P:
            env.skipped += 1
            return None
        b = env.B[bi % len(env.B)]
        blk = b.get_block(env.p(pi), k % b.get_nb_blocks())
        env.P.append(blk)
        env.features.add("get_block")
        return blk

    # ------------------------------------------------------------------------------------------------------
    # primitive steps
    # ------------------------------------------------------------------------------------------------------
    def op_step(self, kind, fi, pi, *args):
        import PEPit.primitive_steps as PS
        env = self.env
        if not env.F or not env.P:
            env.skipped += 1
            return None
        f = env.f(fi)
        x0 = env.p(pi)
        uniq = list({id(g): g for g in env.F}.values())
        before = {id(g): len(g.list_of_constraints) for g in uniq}
        out = None
        if kind == "prox":
            x, gx, fx = PS.proximal_step(x0, f, args[0])
            env.P += [x, gx]
            env.E.append(fx)
            out = x
        elif kind == "inexact_grad":
            x, d, fx0 = PS.inexact_gradient_step(x0, f, gamma=args[0], epsilon=args[1], notion=args[2])
            env.P += [d, x]
            env.E.append(fx0)
            out = x
        elif kind == "linesearch":
            dirs = [env.p(j) for j in args[0]]
            x, gx, fx = PS.exact_linesearch_step(x0, f, dirs)
            env.P += [gx, x]
            env.E.append(fx)
            out = x
        elif kind == "inexact_prox":
            x, gx, fx, w, v, fw, eps = PS.inexact_proximal_step(x0, f, args[0], opt=args[1])
            env.P += [gx, w, v, x]
            env.E += [fx, fw, eps]
            out = x
        elif kind == "eps_subgrad":
            x, g0, f0, eps = PS.epsilon_subgradient_step(x0, f, args[0])
            env.P += [g0, x]
            env.E += [f0, eps]
            out = x
        elif kind == "linopt":
            x, gx, fx = PS.linear_optimization_step(x0, f)
            env.P += [gx, x]
            env.E.append(fx)
            out = x
        elif kind == "bregman_grad":
            # args: index of mirror map function, gamma ; x0 plays the role of the current iterate
            h = env.f(args[0])
            gx0 = f.gradient(x0)
            sx0 = h.gradient(x0)
            x, sx, hx = PS.bregman_gradient_step(gx0, sx0, h, args[1])
            env.P += [gx0, sx0, sx, x]
            env.E.append(hx)
            out = x
        elif kind == "bregman_prox":
            h = env.f(args[0])
            sx0 = h.gradient(x0)
            x, sx, hx, gx, fx = PS.bregman_proximal_step(sx0, h, f, args[1])
            env.P += [sx0, sx, gx, x]
            env.E += [hx, fx]
            out = x
        else:
            raise ValueError(kind)
        for g in uniq:
            for c in g.list_of_constraints[before[id(g)]:]:
                env.step_constraints.append((g, c))
        env.features.add("step:" + kind)
        return out

    # ------------------------------------------------------------------------------------------------------
    # expressions, constraints, LMIs, metrics
    # ------------------------------------------------------------------------------------------------------
    def op_expr(self, kind, *a):
        env = self.env
        if kind in ("sqdist", "dot", "sq") and not env.P:
            env.skipped += 1
            return None
        if kind in ("fdiff", "lin") and not env.E:
            env.skipped += 1
            return None
        if kind == "sqdist":
            e = (env.p(a[0]) - env.p(a[1])) ** 2
        elif kind == "dot":
            e = env.p(a[0]) * env.p(a[1])
        elif kind == "sq":
            e = env.p(a[0]) ** 2
        elif kind == "fdiff":
            e = env.e(a[0]) - env.e(a[1])
        elif kind == "lin":
            e = None
            for i, c in a[0]:
                t = c * env.e(i)
                e = t if e is None else e + t
            if len(a) > 1 and a[1] != 0:
                e = e + a[1]
        elif kind == "const":
            from PEPit import Expression
            e = Expression(is_leaf=False, decomposition_dict={1: a[0]})
        else:
            raise ValueError(kind)
        env.E.append(e)
        return e

    def _cmp(self, lhs, cmp, rhs):
        if cmp == "<=":
            return lhs <= rhs
        if cmp == ">=":
            return lhs >= rhs
        return lhs == rhs

    def op_cons(self, where, ei, cmp, rhs, name=None):
        """where: 'pep' | ['f', i] ; rhs: number | ['e', j]"""
        env = self.env
        if not env.E:
            env.skipped += 1
            return None
        r = env.e(rhs[1]) if isinstance(rhs, list) else rhs
        c = self._cmp(env.e(ei), cmp, r)
        return self._declare_constraint(where, c, name)

    def _declare_constraint(self, where, c, name=None):
        env = self.env
        if where == "pep":
            env.pep.add_constraint(c, name=name)
            env.declared_constraints.append(("pep", c))
        elif where == "init":
            env.pep.set_initial_condition(c, name=name)
            env.declared_constraints.append(("pep", c))
        elif where == "none":
            pass    # built but never added
        else:
            if not env.F:
                env.skipped += 1
                return None
            f = env.f(where[1])
            f.add_constraint(c, name=name)
            env.declared_constraints.append((f, c))
            env.features.add("function_constraint" + ("_composite" if not f.get_is_leaf() else ""))
        env.C.append(c)
        return c

    def op_ball_all(self, R):
        """normalisation: the sum of the squared norms of every leaf point created so far is at most R"""
        from PEPit import Point
        env = self.env
        acc = None
        for p in Point.list_of_leaf_points:
            acc = p ** 2 if acc is None else acc + p ** 2
        if acc is None:
            env.skipped += 1
            return None
        c = acc <= R
        env.features.add("ball_all")
        return self._declare_constraint("init", c, None)

    def op_redeclare(self, where, ci):
        """declare an already existing constraint object once more (legal: sent as often as declared)."""
        env = self.env
        if not env.C:
            env.skipped += 1
            return None
        c = env.C[ci % len(env.C)]
        env.features.add("redeclared_constraint")
        return self._declare_constraint(where, c)

    def op_lmi(self, where, rows, prebuilt=False, name=None, how="list"):
        """rows: square matrix of ['e', i] | ['n', v] ; where: 'pep' | ['f', i] | 'none' ;
        how: 'list' (nested lists) | 'ndarray' (object array, the other documented form) | 'ndarray_reused' (the caller
        overwrites its array after the declaration, as when one buffer is used to declare several LMIs)"""
        from PEPit import PSDMatrix
        env = self.env
        mat = []
        for row in rows:
            r = []
            for ent in row:
                if ent[0] == "e":
                    if not env.E:
                        env.skipped += 1
                        return None
                    r.append(env.e(ent[1]))
                else:
                    r.append(ent[1])
            mat.append(r)
        given = mat                      # what the user wrote, kept apart from what is handed to PEPit
        if how != "list":
            import numpy as _np
            arr = _np.empty((len(mat), len(mat)), dtype=object)
            for a in range(len(mat)):
                for b in range(len(mat)):
                    arr[a, b] = mat[a][b]
            given, mat = [list(r) for r in mat], arr
        obj = None
        if where == "none":
            obj = PSDMatrix(matrix_of_expressions=mat)
        elif where == "pep":
            if prebuilt:
                obj = PSDMatrix(matrix_of_expressions=mat)
                env.pep.add_psd_matrix(obj, name=name)
            else:
                obj = env.pep.add_psd_matrix(mat, name=name)
            env.declared_lmis.append(("pep", obj))
        else:
            if not env.F:
                env.skipped += 1
                return None
            f = env.f(where[1])
            n0 = len(f.list_of_psd)
            f.add_psd_matrix(mat, name=name)
            obj = f.list_of_psd[n0]
            env.declared_lmis.append((f, obj))
            env.features.add("function_lmi")
        if how != "list":
            for a in range(len(given)):
                for b in range(len(given)):
                    if mat[a, b] is not given[a][b]:
                        env.altered_arguments.append("the array passed to declare a %dx%d LMI had its entry (%d,%d) replaced"
                                                     % (len(given), len(given), a, b))
            if how == "ndarray_reused":
                for a in range(len(given)):
                    for b in range(len(given)):
                        mat[a, b] = 0
        env.M.append(obj)
        env.lmi_raw.append((obj, given))      # the entries exactly as the user wrote them (Expression objects / numbers)
        env.features.add("lmi")
        return obj

    def op_metric(self, ei, name=None):
        env = self.env
        if not env.E:
            env.skipped += 1
            return None
        e = env.e(ei)
        env.pep.set_performance_metric(e, name=name)
        env.declared_metrics.append(e)
        return e

    # ------------------------------------------------------------------------------------------------------
    # edits of an existing model (the way the repository's own tests edit a PEP between two solves)
    # ------------------------------------------------------------------------------------------------------
    def _forget(self, c):
        env = self.env
        for k, (w, d) in enumerate(env.declared_constraints):
            if d is c and w == "pep":
                del env.declared_constraints[k]
                return

    def op_replace_init(self, ei, R):
        """replace the first PEP-level constraint (the initial condition) by  E[ei] <= R"""
        env = self.env
        if not env.E:
            env.skipped += 1
            return None
        c = env.e(ei) <= R
        lst = list(env.pep.list_of_constraints)
        if lst:
            self._forget(lst[0])
            lst[0] = c
        else:
            lst = [c]
        env.pep.list_of_constraints = lst
        env.declared_constraints.insert(0, ("pep", c))
        env.C.append(c)
        env.features.add("edit:replace_init")
        return c

    def op_drop_init(self):
        env = self.env
        lst = list(env.pep.list_of_constraints)
        if not lst:
            env.skipped += 1
            return None
        self._forget(lst[0])
        env.dropped = getattr(env, "dropped", []) + [lst[0]]
        env.pep.list_of_constraints = lst[1:]
        env.features.add("edit:drop_init")
        return lst[0]

    def op_restore_init(self):
        env = self.env
        dropped = getattr(env, "dropped", [])
        if not dropped:
            env.skipped += 1
            return None
        c = dropped.pop()
        env.pep.list_of_constraints = [c] + list(env.pep.list_of_constraints)
        env.declared_constraints.insert(0, ("pep", c))
        env.features.add("edit:restore_init")
        return c

    def op_assign_metrics(self, eis):
        env = self.env
        if not env.E:
            env.skipped += 1
            return None
        ms = [env.e(i) for i in eis]
        env.pep.list_of_performance_metrics = list(ms)
        env.declared_metrics = list(ms)
        env.features.add("edit:assign_metrics")
        return ms

    # ------------------------------------------------------------------------------------------------------
    def op_solve(self, options):
        env = self.env
        opts = dict(options)
        if self.solve_hook is not None:
            res = self.solve_hook(env, opts)
        else:
            res = env.pep.solve(**decode_solve_options(opts))
        env.results.append(res)
        return res


def decode_solve_options(opts):
    kw = {}
    kw["wrapper"] = opts.get("wrapper", "cvxpy")
    kw["verbose"] = opts.get("verbose", 0)
    kw["return_primal_or_dual"] = opts.get("ret", "dual")
    if opts.get("solver", "CLARABEL") is not None:
        kw["solver"] = opts.get("solver", "CLARABEL")
    if opts.get("drh") is not None:
        kw["dimension_reduction_heuristic"] = opts["drh"]
        if "eig_reg" in opts:
            kw["eig_regularization"] = opts["eig_reg"]
        if "tol_dr" in opts:
            kw["tol_dimension_reduction"] = opts["tol_dr"]
    for k, v in (opts.get("extra") or {}).items():
        kw[k] = v                                  # solver-specific keyword arguments, forwarded by PEP.solve(**kwargs)
    return kw


def run_program(instrs, solve_hook=None):
    it = Interp(solve_hook=solve_hook)
    it.run(instrs)
    return it.env
