"""Shared runner machinery: case context, bucketing, sharded Hypothesis driver, shrinking, evidence.

Every check module in vf/checks/ exposes
    PROP      : property id ("C06")
    RULE      : how cases are generated and what makes one non-trivial (goes into the evidence file)
    CASES     : {"quick": n, "thorough": n}   total number of generated cases over all shards
    strategy(tier)            -> hypothesis strategy producing a JSON-serialisable case
    check_case(case, ctx)     -> executes the case against the real PEPit and reports through ctx
and optionally
    fixed_cases(tier)         -> list of deterministic cases always executed (probes, calibration cases)
    TRUSTED / ASSUMPTIONS     -> lists of strings for the evidence file
    SHARDS                    -> {"quick": k, "thorough": k}
"""
import hashlib
import json
import os
import sys
import time
import traceback
from collections import Counter

HERE = os.path.dirname(os.path.abspath(__file__))
VERIF = os.path.dirname(HERE)
REPO = os.environ.get("VERIF_REPO", "/repo")


def canon(case):
    return json.dumps(case, sort_keys=True, separators=(",", ":"), default=repr)


def case_hash(case):
    return hashlib.sha1(canon(case).encode()).hexdigest()[:16]


def derive_seed(*parts):
    h = hashlib.sha256(("/".join(str(p) for p in parts)).encode()).digest()
    return int.from_bytes(h[:8], "big") % (2 ** 63)


class HarnessError(Exception):
    """Raised by checks when the harness itself is at fault (never a property verdict)."""


class Ctx(object):
    """Collects what a run covered and what it found."""

    def __init__(self, prop, tier):
        self.prop = prop
        self.tier = tier
        self.evaluations = 0
        self.nontrivial_hashes = set()
        self.samples = []            # a few non-trivial cases written out
        self.counters = Counter()    # generator distribution / outcome labels
        self.maxima = {}             # name -> largest observed value (residuals, ratios ...)
        self.failures = {}           # bucket -> dict(case, msg, count)
        # per-case state
        self._case = None
        self._case_nontrivial = False
        self._case_failed = set()

    # ---- per case -------------------------------------------------------------------------------------------
    def begin(self, case):
        self._case = case
        self._case_nontrivial = False
        self._case_failed = set()
        self.evaluations += 1

    def end(self):
        if self._case_nontrivial:
            h = case_hash(self._case)
            if h not in self.nontrivial_hashes:
                self.nontrivial_hashes.add(h)
                # keep a spread of samples (1st, 5th, 40th, 300th, 2500th distinct non-trivial case)
                if len(self.nontrivial_hashes) in (1, 5, 40, 300, 2500) and len(canon(self._case)) < 6000:
                    self.samples.append(self._case)
        self._case = None

    def nontrivial(self, flag=True):
        if flag:
            self._case_nontrivial = True

    def label(self, name, n=1):
        self.counters[name] += n

    def observe(self, name, value):
        try:
            value = float(value)
        except Exception:
            return
        if value != value:
            return
        if name not in self.maxima or value > self.maxima[name]:
            self.maxima[name] = value

    def fail(self, bucket, msg):
        """Record an oracle failure for the current case under a root-cause bucket and keep going."""
        self._case_failed.add(bucket)
        size = len(canon(self._case))
        cur = self.failures.get(bucket)
        if cur is None:
            self.failures[bucket] = {"case": self._case, "msg": str(msg)[:2000], "count": 1, "size": size}
        else:
            cur["count"] += 1
            if size < cur["size"]:
                cur.update(case=self._case, msg=str(msg)[:2000], size=size)

    # ---- merge / export ----------------------------------------------------------------------------------------
    def export(self):
        return {
            "evaluations": self.evaluations,
            "nontrivial_hashes": sorted(self.nontrivial_hashes),
            "samples": self.samples,
            "counters": dict(self.counters),
            "maxima": self.maxima,
            "failures": self.failures,
        }

    def merge(self, data):
        self.evaluations += data["evaluations"]
        self.nontrivial_hashes.update(data["nontrivial_hashes"])
        self._pending_samples = getattr(self, "_pending_samples", [])
        self._pending_samples.append(list(data["samples"]))
        # round-robin over shards, latest (largest index) samples first, at most 5
        flat = []
        for k in range(5):
            for lst in self._pending_samples:
                if len(lst) > k:
                    flat.append(lst[-1 - k])
        self.samples = flat[:5]
        self.counters.update(data["counters"])
        for k, v in data["maxima"].items():
            if k not in self.maxima or v > self.maxima[k]:
                self.maxima[k] = v
        for b, f in data["failures"].items():
            cur = self.failures.get(b)
            if cur is None:
                self.failures[b] = dict(f)
            else:
                cur["count"] += f["count"]
                if f["size"] < cur["size"]:
                    cur.update(case=f["case"], msg=f["msg"], size=f["size"])


def pepit_frame(tb):
    """Innermost traceback frame that lies in the PEPit package (None if the exception is not from PEPit)."""
    found = None
    for fs in traceback.extract_tb(tb):
        fn = fs.filename.replace("\\", "/")
        if "/PEPit/" in fn and "/verif/" not in fn:
            found = "%s:%s" % (os.path.basename(fn), fs.name)
    return found


def run_case(module, case, ctx):
    """Execute one case; unexpected exceptions become buckets (PEPit frames) or harness errors (ours)."""
    ctx.begin(case)
    try:
        module.check_case(case, ctx)
    except HarnessError:
        raise
    except Exception as exc:  # noqa
        if type(exc).__name__ == "SolverError":
            # the numerical solver gave up: a solver outcome, not a PEPit outcome -> inconclusive, counted
            ctx.label("inconclusive:SolverError")
            return
        frame = pepit_frame(exc.__traceback__)
        if frame is None or getattr(module, "CRASH_IS_HARNESS", False):
            raise HarnessError("harness exception on case %s: %s" % (canon(case)[:400], traceback.format_exc()))
        ctx.fail("crash:%s@%s" % (type(exc).__name__, frame),
                 "unexpected %s in PEPit on a legal program: %s" % (type(exc).__name__, exc))
    finally:
        ctx.end()


# --------------------------------------------------------------------------------------------------------------
# known findings
# --------------------------------------------------------------------------------------------------------------
def load_known(prop):
    path = os.path.join(VERIF, "known_findings.json")
    if not os.path.exists(path):
        return []
    with open(path) as f:
        data = json.load(f)
    return [e for e in data.get("findings", []) if e.get("property") == prop and e.get("status") == "open"]


def known_entry_for(bucket, known):
    for e in known:
        if bucket in e.get("buckets", []):
            return e
    return None


# --------------------------------------------------------------------------------------------------------------
# one shard = one seeded Hypothesis run in a worker process
# --------------------------------------------------------------------------------------------------------------
def _hyp_settings(n, shrink):
    from hypothesis import settings, Phase, HealthCheck
    phases = [Phase.generate, Phase.target]
    if shrink:
        phases.append(Phase.shrink)
    return settings(max_examples=n, database=None, deadline=None, derandomize=False,
                    report_multiple_bugs=False, phases=phases, print_blob=False,
                    suppress_health_check=list(HealthCheck))


class _Found(Exception):
    pass


def run_shard(args):
    modname, tier, shard, nshards, n_cases, base_seed = args[:6]
    regress_cases = args[6] if len(args) > 6 else []
    import importlib
    import hypothesis
    from hypothesis import given
    module = importlib.import_module(modname)
    ctx = Ctx(module.PROP, tier)
    seed_value = derive_seed(base_seed, module.PROP, tier, shard)
    strat = module.strategy(tier)
    t0 = time.time()
    try:
        for case in regress_cases:
            run_case(module, case, ctx)
            ctx.label("regress_cases")
        if shard == 0 and hasattr(module, "fixed_cases"):
            for case in module.fixed_cases(tier):
                run_case(module, case, ctx)
                ctx.label("fixed_cases")

        if n_cases > 0:
            @hypothesis.seed(seed_value)
            @_hyp_settings(n_cases, shrink=False)
            @given(strat)
            def body(case):
                run_case(module, case, ctx)

            body()

        # shrink pass for buckets that are not listed as known findings (bounded in number and time)
        known = load_known(module.PROP)
        unknown = [b for b in sorted(ctx.failures) if known_entry_for(b, known) is None]
        budget = 40.0 if tier == "quick" else 240.0
        for bucket in unknown[:3]:
            best = {"case": ctx.failures[bucket]["case"], "size": ctx.failures[bucket]["size"]}
            deadline = time.time() + budget

            @hypothesis.seed(seed_value)
            @_hyp_settings(max(n_cases, 1), shrink=True)
            @given(strat)
            def shrink_body(case, bucket=bucket, best=best, deadline=deadline):
                if time.time() > deadline:
                    return
                c2 = Ctx(module.PROP, tier)
                try:
                    run_case(module, case, c2)
                except HarnessError:
                    return
                if bucket in c2.failures:
                    size = len(canon(case))
                    if size < best["size"]:
                        best["case"], best["size"] = case, size
                        best["msg"] = c2.failures[bucket]["msg"]
                    raise _Found()

            try:
                shrink_body()
            except BaseException:  # noqa  (Found / Flaky / anything: we only want `best`)
                pass
            if best["size"] < ctx.failures[bucket]["size"]:
                ctx.failures[bucket].update(case=best["case"], size=best["size"],
                                            msg=best.get("msg", ctx.failures[bucket]["msg"]))
                ctx.failures[bucket]["shrunk"] = True
    except HarnessError as exc:
        return {"harness_error": str(exc), "shard": shard}
    except Exception:
        return {"harness_error": traceback.format_exc(), "shard": shard}
    out = ctx.export()
    out["shard"] = shard
    out["wall_s"] = time.time() - t0
    return out


def write_replay(prop, bucket, failure):
    d = os.path.join(VERIF, "replays", prop)
    os.makedirs(d, exist_ok=True)
    name = hashlib.sha1((bucket + canon(failure["case"])).encode()).hexdigest()[:12] + ".json"
    path = os.path.join(d, name)
    with open(path, "w") as f:
        json.dump({"property": prop, "bucket": bucket, "message": failure["msg"], "case": failure["case"]},
                  f, indent=1, default=repr)
    return path
