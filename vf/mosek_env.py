"""Glue for running PEPit's MosekWrapper against the stand-in `mosek` module (vf/standin/mosek).

The stand-in is importable only inside `active()`; cvxpy is imported *before* so that it never mistakes the
stand-in for the real solver (its list of installed solvers is computed at import time).  Inside `active()` every
cvxpy-wrapper solve must pass an explicit solver.
"""
import contextlib
import os
import sys

import numpy as np

STANDIN_DIR = os.path.join(os.path.dirname(os.path.abspath(__file__)), "standin")


KEEP = {}


def available():
    return os.path.exists(os.path.join(STANDIN_DIR, "mosek", "__init__.py"))


@contextlib.contextmanager
def active(build_only=False):
    import cvxpy  # noqa  (must be imported first)
    import importlib
    sys.path.insert(0, STANDIN_DIR)
    importlib.invalidate_caches()
    try:
        import mosek
        if not getattr(mosek, "STANDIN", False):
            raise RuntimeError("a real mosek package is importable; the stand-in is not used")
        mosek.BUILD_ONLY["on"] = build_only
        yield mosek
    finally:
        try:
            sys.modules["mosek"].BUILD_ONLY["on"] = False
        except Exception:  # noqa
            pass
        KEEP["mosek"] = sys.modules.pop("mosek", None)
        try:
            sys.path.remove(STANDIN_DIR)
        except ValueError:
            pass
        importlib.invalidate_caches()


def solve_build_only(pep, verbose=0):
    """Run PEP.solve(wrapper='mosek') up to (and excluding) the numerical solve.  Returns (None, wrapper, task)."""
    with active(build_only=True) as mosek:
        try:
            res = pep.solve(wrapper="mosek", verbose=verbose)
        except mosek.BuildOnly:
            res = None
        w = pep.wrapper
        if type(w).__name__ != "MosekWrapper":
            raise RuntimeError("PEP.solve(wrapper='mosek') did not use MosekWrapper (got %s)" % type(w).__name__)
        return res, w, w.task


def solve(pep, **kw):
    """Full solve through MosekWrapper on the stand-in."""
    with active(build_only=False):
        res = pep.solve(wrapper="mosek", **kw)
        return res


def decode_task(task, n, m, lmi_shapes, points):
    """Evaluate every row of the emitted task at the given (G, F, [M_k]) points.

    Row i denotes   a_i.x + <Abar_i0, G> + sum_k <Abar_i,k+1, M_k>   with bound key bk:
        up : row - u <= 0 (inequality) ; fx : row - b == 0 (equality) ; lo : l - row <= 0 ; fr : nothing.
    Returns dict(rows, eq, c, objsense, barc_nonzero) or dict(error, error_kind)."""
    mosek = sys.modules.get("mosek") or KEEP.get("mosek")
    dims = list(task.bardims)
    if not dims or dims[0] != n:
        return {"error": "first matrix variable has dimension %r, expected the Gram size %d" % (dims[:1], n),
                "error_kind": "gram-dimension"}
    if dims[1:] != [s[0] for s in lmi_shapes]:
        return {"error": "matrix variables have dimensions %r, LMIs sent have sizes %r" % (dims[1:], [s[0] for s in lmi_shapes]),
                "error_kind": "lmi-dimensions"}
    if task.numvar < m:
        return {"error": "%d scalar variables for %d leaf expressions" % (task.numvar, m), "error_kind": "numvar"}
    for j in range(m):
        if task.varbound[j][0] != mosek.boundkey.fr:
            return {"error": "scalar variable %d (a leaf expression) is not free: %r" % (j, task.varbound[j]),
                    "error_kind": "variable-not-free"}
    for j in range(m, task.numvar):
        bk, bl, bu = task.varbound[j]
        if not (bk == mosek.boundkey.fx and bl == 0 and bu == 0):
            # an extra variable that is not pinned would be an undeclared degree of freedom
            if any(jj == j for (_i, jj) in task.A) or j in task.c:
                return {"error": "extra scalar variable %d is used and not fixed" % j, "error_kind": "extra-variable"}
    rows, eq = [], []
    for i in range(task.numcon):
        bk, bl, bu = task.conbound[i]
        if bk == mosek.boundkey.fr:
            if any(ii == i for (ii, _j) in task.A) or any(ii == i for (ii, _j) in task.barA):
                return {"error": "constraint row %d has data but no bound" % i, "error_kind": "row-without-bound"}
            continue
        vals = []
        for (G, F, Ms) in points:
            x = np.zeros(task.numvar)
            x[:m] = F
            v = 0.0
            for (ii, j), a in task.A.items():
                if ii == i:
                    v += a * x[j]
            for (ii, j), M in task.barA.items():
                if ii == i:
                    X = G if j == 0 else Ms[j - 1]
                    v += float(np.sum(M * X))
            if bk == mosek.boundkey.up:
                vals.append(v - bu)
            elif bk == mosek.boundkey.fx:
                vals.append(v - bl)
            elif bk == mosek.boundkey.lo:
                vals.append(bl - v)
            else:
                return {"error": "row %d has a ranged bound" % i, "error_kind": "ranged-row"}
        rows.append(vals)
        eq.append(bk == mosek.boundkey.fx)
    c = np.zeros(m)
    for j, v in task.c.items():
        if j < m:
            c[j] = v
        elif v != 0:
            return {"error": "objective uses the extra variable %d" % j, "error_kind": "objective-extra-variable"}
    return {"rows": rows, "eq": eq, "c": c, "objsense": "maximize" if task.sense == mosek.objsense.maximize else "minimize",
            "barc_nonzero": any(np.any(C != 0) for C in task.barC.values())}
