"""C09 - no real run of a modelled method on a real function beats the returned bound.

Generated: (example family, parameters in its documented range, real member of the declared class(es), dimension,
starting point meeting the initial condition).  The modelled method is re-implemented independently in numpy (from the
algorithm stated in the example's docstring) and run on the real member; its performance, normalised by the initial
measure, must not exceed the value returned by the shipped wc_* function for that setting (CLARABEL), up to 1e-4
relative.  Families: gradient descent (value and contraction), heavy ball, accelerated gradient, subgradient method,
proximal point, proximal gradient, Frank-Wolfe, Halpern, Krasnoselskii-Mann, proximal point for monotone operators,
optimistic gradient, past extragradient, Douglas-Rachford for operators; vf/checks/c09_more.py adds 41 more (quadratics,
OGM, OGM-G, triple momentum, strongly convex AGM, ITEM, silver step sizes, exact line search, conjugate gradient, inexact
gradient (with and without line search), cyclic and randomized coordinate descent, robust momentum, gradient descent through
a linear operator, accelerated proximal point, FISTA, DRS (contraction and function values), three-operator splitting (both
versions), proximal gradient on quadratics, SGD (two versions), SAGA, Point-SAGA, three more fixed-point iterations, three
more monotone-inclusion methods, Polyak steps, the QG+ and RSI-EB classes, three potential functions).  Known extremal members (Huber functions with the
worst-case knee, rotations, one-dimensional quadratics at mu / L, c|x|) are part of the generators.
"""
import importlib
import inspect
import json
import math

import numpy as np
from hypothesis import strategies as st

from vf import prog, members
from vf.checks import c09_more

PROP = "C09"
CASES = {"quick": 20000, "thorough": 600000}
RULE = ("family in 59 method families x parameters from a small grid inside the documented range (so that each bound is "
        "computed once per shard and reused) x real member (seeded) x dimension 1-4 x starting point.  Non-trivial = real "
        "performance >= 50% of the bound; distinct by case JSON.")
TRUSTED = ["the numpy re-implementations of the methods in vf/checks/c09.py (from the docstrings)", "vf/members.py", "CLARABEL"]
ASSUMPTIONS = ["bounds are computed with CLARABEL also for the two examples that call PEP.solve() without forwarding a solver (the default is redirected while the bound is computed)",
               "generated members are a subset of each class; the largest ratio reached per family is reported in the evidence"]

Lg = st.sampled_from([1, 2, 0.5, 3])
TAU = {}


def tau_of(module, fname, kwargs):
    key = (module, fname, json.dumps(kwargs, sort_keys=True, default=repr))
    if key not in TAU:
        mod = importlib.import_module(module)
        fn = getattr(mod, fname)
        # Two examples (wc_gradient_descent_lc, which has no solver argument, and wc_gradient_descent_quadratics, which
        # accepts one but does not forward it) call PEP.solve() without a solver and would get SCS, whose ~1e-4 accuracy is
        # too coarse for this comparison; the default is therefore redirected to CLARABEL while the bound is computed.
        from PEPit import PEP
        orig = PEP.solve

        def solve(self, *a, **kw):
            if kw.get("solver") is None:
                kw["solver"] = "CLARABEL"
            return orig(self, *a, **kw)
        extra = {"solver": "CLARABEL"} if "solver" in inspect.signature(fn).parameters else {}
        PEP.solve = solve
        try:
            with prog.quiet():
                out = fn(verbose=-1, **extra, **kwargs)
        finally:
            PEP.solve = orig
        TAU[key] = out[0]
    return TAU[key]


UC = "PEPit.examples.unconstrained_convex_minimization"
CC = "PEPit.examples.composite_convex_minimization"
FP = "PEPit.examples.fixed_point_problems"
MI = "PEPit.examples.monotone_inclusions_variational_inequalities"
TU = "PEPit.examples.tutorials"

FAMILIES = ["gd_nonconvex", "gd", "gd_contraction", "heavy_ball", "agm", "subgradient", "prox_point", "prox_gradient", "frank_wolfe",
            "halpern", "km", "mono_prox_point", "optimistic_gradient", "past_extragradient", "drs_operators"] + sorted(c09_more.RUN)


@st.composite
def _case(draw):
    fam = draw(st.sampled_from(FAMILIES))
    L = draw(Lg)
    p = {}
    if fam == "gd_nonconvex":
        p = {"L": L, "gamma": draw(st.sampled_from([1.0, 0.5, 0.25])) / L, "n": draw(st.integers(1, 4))}
    elif fam == "gd":
        p = {"L": L, "gamma": draw(st.sampled_from([1.0, 0.5, 0.25])) / L, "n": draw(st.integers(1, 4))}
    elif fam == "gd_contraction":
        p = {"L": L, "mu": round(L * draw(st.sampled_from([0.1, 0.5])), 6), "gamma": draw(st.sampled_from([1.0, 0.5, 1.5, 1.9])) / L, "n": draw(st.integers(1, 3))}
    elif fam == "heavy_ball":
        mu = round(L * draw(st.sampled_from([0.1, 0.3])), 6)
        alpha = draw(st.sampled_from([0.5, 1.0])) / L
        p = {"mu": mu, "L": L, "alpha": alpha, "beta": math.sqrt((1 - alpha * mu) * (1 - L * alpha)), "n": draw(st.integers(1, 3))}
    elif fam == "agm":
        p = {"mu": 0, "L": L, "n": draw(st.integers(1, 4))}
    elif fam == "subgradient":
        M = draw(st.sampled_from([1, 2, 0.5, 3]))
        n = draw(st.integers(1, 4))
        p = {"M": M, "n": n, "gamma": 1 / (math.sqrt(n + 1) * M)}
    elif fam == "prox_point":
        p = {"gamma": draw(st.sampled_from([0.5, 1, 2])), "n": draw(st.integers(1, 4))}
    elif fam == "prox_gradient":
        p = {"L": L, "mu": round(L * draw(st.sampled_from([0.1, 0.5])), 6), "gamma": draw(st.sampled_from([1.0, 0.5, 1.5])) / L, "n": draw(st.integers(1, 3))}
    elif fam == "frank_wolfe":
        p = {"L": L, "D": draw(st.sampled_from([1.0, 2.0, 0.5, 3.0])), "n": draw(st.integers(1, 4))}
    elif fam in ("halpern",):
        p = {"n": draw(st.integers(1, 6))}
    elif fam == "km":
        p = {"n": draw(st.integers(1, 6)), "gamma": draw(st.sampled_from([0.5, 0.75, 1.0]))}
    elif fam == "mono_prox_point":
        p = {"alpha": draw(st.sampled_from([0.5, 1, 2.1])), "n": draw(st.integers(1, 5))}
    elif fam in ("optimistic_gradient", "past_extragradient"):
        p = {"n": draw(st.integers(1, 5)), "gamma": draw(st.sampled_from([0.25, 0.125])) / L, "L": L}
    elif fam == "drs_operators":
        p = {"L": L, "mu": draw(st.sampled_from([0.1, 0.5, 1.0])), "alpha": draw(st.sampled_from([1.0, 1.3, 0.5])), "theta": draw(st.sampled_from([1.0, 0.9, 1.5]))}
    if fam in c09_more.PARAMS:
        p = c09_more.PARAMS[fam](draw, L)
    return {"family": fam, "params": p, "seed": draw(st.integers(0, 10 ** 6)), "n_dim": draw(st.integers(1, 4)),
            "member": draw(st.sampled_from(["extremal", "extremal", "random", "random2"])), "slack": draw(st.sampled_from([1, 1, 1.3]))}


def strategy(tier):
    return _case()


def fixed_cases(tier):
    out = []
    for fam in FAMILIES:
        pass
    # the published worst case of gradient descent: Huber function with knee 1/(2 n L gamma + 1)
    for n in (1, 2, 3):
        out.append({"family": "gd", "params": {"L": 1, "gamma": 1.0, "n": n}, "seed": 0, "n_dim": 1, "member": "extremal", "slack": 1})
    return out


# ---- numpy helpers --------------------------------------------------------------------------------------------------
def unit(rng, n):
    v = rng.randn(n)
    return v / max(np.linalg.norm(v), 1e-12)


class Huber1D(object):
    def __init__(self, L, delta):
        self.L, self.d = L, delta

    def value(self, x):
        t = abs(x[0])
        return self.L * (0.5 * t * t if t <= self.d else self.d * t - 0.5 * self.d ** 2)

    def grad(self, x, rng=None):
        return np.array([self.L * float(np.clip(x[0], -self.d, self.d))])

    def stationary(self):
        return np.zeros(1)


def smooth_member(rng, n, L, mu, kind, slack):
    """member of F(mu, L): returns (member, x*)"""
    Lt, mut = L / slack, mu * slack if mu else 0.0
    if mut > Lt:
        mut = Lt
    if kind.startswith("extremal"):
        eigs = ([mut, Lt] + [rng.choice([mut, Lt]) for _ in range(n)])[:n] if n > 1 else [Lt if rng.randint(2) else mut]
        if mu == 0 and n == 1:
            eigs = [Lt]
        m = members.Quadratic(rng, n, eigs)
        return m
    m = members.SumPhi(rng, n, mu=mut)
    # rescale so that the smoothness constant is exactly Lt
    base = m.Lsmooth - m.mu
    if base > 0 and Lt > mut:
        m.w = m.w * (Lt - mut) / base
        m.Lsmooth = Lt
    else:
        m = members.Quadratic(rng, n, [Lt] * n)
    return m


def monotone_linear(rng, n, L, mu=0.0, extremal=True):
    """A x = C (x - c): C = mu I + sym PSD + skew with ||C - mu I|| arranged so that ||C|| <= L (for mu = 0) """
    if n == 1:
        C = np.array([[L if mu == 0 else mu]])
    elif extremal:
        C, _ = members.rot_scale(rng, n, mu, math.sqrt(max(L * L - mu * mu, 0.0)) if mu == 0 else L)
    else:
        S = members.skew(rng, n, 1.0)
        Pm = members.sym_with_spectrum(rng, [rng.uniform(0, 1) for _ in range(n)])
        B = S + Pm
        B = B / max(np.linalg.norm(B, 2), 1e-12) * L
        C = B + mu * np.eye(n)
    return members.AffineOp(C, members.int_vec(rng, n, -2, 2))


def run_family(case, rng):
    """returns (performance / initial measure, module, function, kwargs) or None when the drawn member does not apply"""
    fam, p, n, kind, slack = case["family"], case["params"], case["n_dim"], case["member"], case["slack"]
    if fam == "gd_nonconvex":
        L, g, N = p["L"], p["gamma"], p["n"]
        if kind == "extremal" and n <= 2:
            # the worst case of the method: a one-dimensional function whose derivative is the triangle wave
            # G - L' dist(x0 - x, period Z) with period gamma G (curvature +-L', L' = L / slack): every iterate sees the same
            # gradient G and the value drops by gamma G^2 (1 - L' gamma / 4) per step
            Lp = L / slack
            G = float(rng.choice([1.0, 0.5, 3.0]))
            per = g * G

            def drop(t):
                k, r = divmod(t, per)
                tri = r * r / 2 if r <= per / 2 else per * per / 4 - (per - r) ** 2 / 2
                return k * (per * G - Lp * per * per / 4) + G * r - Lp * tri
            t, best = 0.0, G * G
            for _ in range(N):
                u = t % per
                gr = G - Lp * min(u, per - u)
                t += g * gr
                u = t % per
                best = min(best, (G - Lp * min(u, per - u)) ** 2)
            return best / drop(t), "PEPit.examples.nonconvex_optimization", "wc_gradient_descent", p
        m = members.CosSum(rng, n)
        # rescale so that the curvature bound is exactly L / slack
        m.a = m.a * (L / slack) / m.L
        m.L = L / slack
        x = rng.uniform(-3, 3, size=n)
        f0 = m.value(x)
        best = float(np.dot(m.grad(x), m.grad(x)))
        for _ in range(N):
            x = x - g * m.grad(x)
            best = min(best, float(np.dot(m.grad(x), m.grad(x))))
        dec = f0 - m.value(x)
        if dec <= 1e-12:
            return None
        return best / dec, "PEPit.examples.nonconvex_optimization", "wc_gradient_descent", p
    if fam == "gd":
        L, g, N = p["L"], p["gamma"], p["n"]
        if kind == "extremal" and n == 1:
            m = Huber1D(L / slack, 1.0 / (2 * N * (L / slack) * g + 1))
            x = np.array([1.0])
            xs = np.zeros(1)
        else:
            m = smooth_member(rng, n, L, 0.0, kind, slack)
            xs = m.stationary()
            x = xs + unit(rng, n) * rng.choice([1.0, 3.0, 0.3])
        d0 = np.dot(x - xs, x - xs)
        for _ in range(N):
            x = x - g * m.grad(x)
        return (m.value(x) - m.value(xs)) / d0, UC, "wc_gradient_descent", p
    if fam == "gd_contraction":
        m = smooth_member(rng, n, p["L"], p["mu"], kind, slack)
        x, y = rng.randn(n), rng.randn(n)
        if kind == "extremal" and hasattr(m, "Q"):
            w, V = np.linalg.eigh(m.Q)
            y = x + V[:, rng.choice([0, n - 1])]          # difference along an extreme eigenvector
        d0 = np.dot(x - y, x - y)
        for _ in range(p["n"]):
            x, y = x - p["gamma"] * m.grad(x), y - p["gamma"] * m.grad(y)
        return np.dot(x - y, x - y) / d0, TU, "wc_gradient_descent_contraction", p
    if fam == "heavy_ball":
        m = smooth_member(rng, n, p["L"], p["mu"], kind, slack)
        xs = m.stationary()
        x = xs + unit(rng, n) * rng.choice([1.0, 2.0])
        f0 = m.value(x) - m.value(xs)
        xo, xn = x.copy(), x.copy()
        for _ in range(p["n"]):
            xnext = xn - p["alpha"] * m.grad(xn) + p["beta"] * (xn - xo)
            xo, xn = xn, xnext
        return (m.value(xn) - m.value(xs)) / f0, UC, "wc_heavy_ball_momentum", p
    if fam == "agm":
        L = p["L"]
        if kind == "extremal" and n == 1:
            m = Huber1D(L / slack, rng.choice([0.05, 0.1, 0.2, 0.4]))
            xs = np.zeros(1)
            x = np.array([1.0])
        else:
            m = smooth_member(rng, n, L, 0.0, kind, slack)
            xs = m.stationary()
            x = xs + unit(rng, n) * rng.choice([1.0, 3.0])
        d0 = np.dot(x - xs, x - xs)
        xn, y = x.copy(), x.copy()
        for i in range(p["n"]):
            xo = xn
            xn = y - m.grad(y) / L
            y = xn + i / (i + 3) * (xn - xo)
        return (m.value(xn) - m.value(xs)) / d0, UC, "wc_accelerated_gradient_convex", p
    if fam == "subgradient":
        M = p["M"]
        if kind == "extremal" and rng.randint(2):
            # the worst case of the method: M |x - c|_inf in dimension n + 1 from a vertex direction, the oracle returning the
            # subgradient of one maximal coordinate; every iterate keeps the value M / sqrt(n + 1)
            N = p["n"]
            dim = N + 1
            c = members.int_vec(rng, dim, -2, 2).astype(float)
            Mm = M / slack
            x = c + rng.choice([-1.0, 1.0], size=dim) / math.sqrt(dim)
            best = Mm * float(np.max(np.abs(x - c)))
            for _ in range(N):
                a = np.abs(x - c)
                act = np.nonzero(a >= a.max() - 1e-12)[0]
                i = act[rng.randint(len(act))]
                gsub = np.zeros(dim)
                gsub[i] = Mm * np.sign(x[i] - c[i])
                x = x - p["gamma"] * gsub
                best = min(best, Mm * float(np.max(np.abs(x - c))))
            return best, UC, "wc_subgradient_method", p
        if kind == "extremal":
            m = members.Norm2(rng, n)
            m.M = M / slack
        else:
            m = members.MaxAffine(rng, n) if kind == "random" else members.WeightedL1(rng, n)
            if m.M <= 0:
                return None
            sc = (M / slack) / m.M
            if hasattr(m, "A"):
                m.A = m.A * sc
            else:
                m.w = m.w * sc
            m.M = M / slack
        xs = m.stationary()
        x = xs + unit(rng, n) * rng.choice([1.0, 1.0, 0.5])
        best = m.value(x) - m.value(xs)
        for _ in range(p["n"]):
            x = x - p["gamma"] * m.grad(x, rng)
            best = min(best, m.value(x) - m.value(xs))
        return best, UC, "wc_subgradient_method", p          # initial condition |x0 - x*|^2 <= 1 holds, bound is for R = 1
    if fam == "prox_point":
        g = p["gamma"]
        which = "abs" if kind == "extremal" else ("l1" if kind == "random" else "quad")
        if which == "quad":
            m = members.Quadratic(rng, n, [rng.uniform(0, 3) for _ in range(n)])

            def prox(x):
                return np.linalg.solve(np.eye(n) + g * m.Q, x + g * m.Q @ m.c)
        else:
            m = members.WeightedL1(rng, n)
            if which == "abs":
                m.w = np.full(n, float(rng.choice([0.1, 0.5, 1.0, 3.0])))

            def prox(x):
                t = x - m.c
                return m.c + np.sign(t) * np.maximum(np.abs(t) - g * m.w, 0.0)
        xs = m.stationary()
        x = xs + unit(rng, n) * rng.choice([1.0, 2.0, 5.0])
        d0 = np.dot(x - xs, x - xs)
        for _ in range(p["n"]):
            x = prox(x)
        return (m.value(x) - m.value(xs)) / d0, UC, "wc_proximal_point", p
    if fam == "prox_gradient":
        f1 = smooth_member(rng, n, p["L"], p["mu"], "extremal" if kind == "extremal" else "random", slack)
        useb = kind == "random2"
        if useb:
            box = members.BoxIndicator(rng, n)

            def prox2(x):
                return box.project(x)
        else:
            l1 = members.WeightedL1(rng, n)

            def prox2(x):
                t = x - l1.c
                return l1.c + np.sign(t) * np.maximum(np.abs(t) - p["gamma"] * l1.w, 0.0)
        xs = rng.randn(n)
        for _ in range(20000):                 # fixed point of the proximal gradient map = minimiser of f1 + f2
            nx = prox2(xs - p["gamma"] * f1.grad(xs))
            if np.linalg.norm(nx - xs) <= 1e-15:
                xs = nx
                break
            xs = nx
        if np.linalg.norm(prox2(xs - p["gamma"] * f1.grad(xs)) - xs) > 1e-12:
            return None
        x = xs + unit(rng, n) * rng.choice([1.0, 2.0])
        d0 = np.dot(x - xs, x - xs)
        for _ in range(p["n"]):
            x = prox2(x - p["gamma"] * f1.grad(x))
        return np.dot(x - xs, x - xs) / d0, CC, "wc_proximal_gradient", p
    if fam == "frank_wolfe":
        L, D, N = p["L"], p["D"], p["n"]
        f1 = smooth_member(rng, n, L, 0.0, "extremal" if kind == "extremal" else "random", slack)
        # box of diameter <= D around a random point
        c = rng.randn(n)
        half = rng.uniform(0.2, 1.0, size=n)
        half = half / np.linalg.norm(2 * half) * (D / slack)
        lo, hi = c - half, c + half
        if kind == "extremal":
            f1.c = lo - 0.5 * half if hasattr(f1, "c") else None      # unconstrained minimiser outside the set

        def lmo(gv):
            return np.where(gv > 0, lo, hi)
        x = np.where(rng.randint(2, size=n) > 0, lo, hi)               # a vertex
        # F* by projected gradient to high accuracy
        z = np.clip(c, lo, hi)
        Lt = max(L / slack, 1e-9)
        for _ in range(20000):
            nz = np.clip(z - f1.grad(z) / Lt, lo, hi)
            if np.linalg.norm(nz - z) <= 1e-15:
                z = nz
                break
            z = nz
        for i in range(N):
            y = lmo(f1.grad(x))
            lam = 2 / (i + 2)
            x = (1 - lam) * x + lam * y
        return (f1.value(x) - f1.value(z)), CC, "wc_frank_wolfe", p
    if fam in ("halpern", "km"):
        if kind == "extremal" and n >= 2:
            C = members.orth(rng, n)
        elif kind == "random":
            C = members.sym_with_spectrum(rng, [rng.choice([1.0, -1.0, 0.0, 0.5]) for _ in range(n)])
        else:
            C = members.orth(rng, n) * rng.uniform(0.5, 1.0)
        c = members.int_vec(rng, n, -2, 2)
        A = members.AffineOp(C, c, c.copy())          # fixed point c
        x0 = c + unit(rng, n) * rng.choice([1.0, 2.0])
        d0 = np.dot(x0 - c, x0 - c)
        x = x0.copy()
        if fam == "halpern":
            for i in range(p["n"]):
                x = x0 / (i + 2) + (1 - 1 / (i + 2)) * A.grad(x)
            r = x - A.grad(x)
            return np.dot(r, r) / d0, FP, "wc_halpern_iteration", p
        for i in range(p["n"]):
            x = (1 - p["gamma"]) * x + p["gamma"] * A.grad(x)
        r = 0.5 * (x - A.grad(x))
        return np.dot(r, r) / d0, FP, "wc_krasnoselskii_mann_constant_step_sizes", p
    if fam == "mono_prox_point":
        a = p["alpha"]
        if kind == "extremal" and n >= 2:
            A = members.AffineOp(members.skew(rng, n, rng.choice([0.3, 1.0, 3.0]) / a), members.int_vec(rng, n, -2, 2))
        else:
            A = monotone_linear(rng, n, rng.choice([0.5, 1.0, 3.0]), 0.0, extremal=False)
        xs = A.c
        x = xs + unit(rng, n) * rng.choice([1.0, 2.0])
        d0 = np.dot(x - xs, x - xs)
        J = np.linalg.inv(np.eye(n) + a * A.C)
        prev = x
        for _ in range(p["n"]):
            prev = x
            x = xs + J @ (x - xs)
        return np.dot(x - prev, x - prev) / d0, MI, "wc_proximal_point", p
    if fam in ("optimistic_gradient", "past_extragradient"):
        L, g, N = p["L"], p["gamma"], p["n"]
        F = monotone_linear(rng, n, L / slack, 0.0, extremal=(kind == "extremal"))
        xs = F.c
        # C = R^n (projection = identity) or a box whose interior contains the solution
        if kind == "random2":
            lo, hi = xs - rng.uniform(0.2, 2.0, size=n), xs + rng.uniform(0.2, 2.0, size=n)

            def proj(v):
                return np.clip(v, lo, hi)
        else:
            def proj(v):
                return v
        x0 = xs + unit(rng, n)
        d0 = np.dot(x0 - xs, x0 - xs)
        x = proj(x0)
        xt = x
        V = F.grad(xt)
        if fam == "optimistic_gradient":
            prev_xt = xt
            for _ in range(N):
                prev_xt = xt
                xt = proj(x - g * V)
                pV = V
                V = F.grad(xt)
                x = xt + g * (pV - V)
            r = xt - prev_xt
            return np.dot(r, r) / d0, MI, "wc_optimistic_gradient", p
        prev_x = x
        for _ in range(N):
            xt = proj(x - g * V)
            V = F.grad(xt)
            prev_x = x
            x = proj(x - g * V)
        r = x - prev_x
        return np.dot(r, r) / d0, MI, "wc_past_extragradient", p
    if fam == "drs_operators":
        L, mu, a, th = p["L"], p["mu"], p["alpha"], p["theta"]
        A = monotone_linear(rng, n, L / slack, 0.0, extremal=(kind == "extremal"))
        Bm = members.sym_with_spectrum(rng, [mu * slack + rng.choice([0.0, 1.0, 10.0, 1e4]) for _ in range(n)]) + members.skew(rng, n, rng.choice([0.0, 1.0]))
        JB = np.linalg.inv(np.eye(n) + a * Bm)
        JA = np.linalg.inv(np.eye(n) + a * A.C)

        def T(w):
            xx = JB @ w
            yy = A.c + JA @ (2 * xx - w - A.c)
            return w - th * (xx - yy)
        w0, w1 = rng.randn(n), rng.randn(n)
        d0 = np.dot(w0 - w1, w0 - w1)
        z0, z1 = T(w0), T(w1)
        return np.dot(z0 - z1, z0 - z1) / d0, MI, "wc_douglas_rachford_splitting", p
    if fam in c09_more.RUN:
        return c09_more.RUN[fam](case, rng)
    raise ValueError(fam)


def check_case(case, ctx):
    rng = np.random.RandomState(case["seed"])
    out = run_family(case, rng)
    if out is None:
        ctx.label("member-not-applicable")
        return
    perf, module, fname, kwargs = out
    try:
        tau = tau_of(module, fname, kwargs)
    except Exception as exc:  # noqa
        if type(exc).__name__ == "SolverError":
            ctx.label("inconclusive:SolverError")
            return
        raise
    fam = case["family"]
    ctx.label("family:" + fam)
    if tau is None:
        ctx.label("bound-is-none")
        return
    if isinstance(perf, tuple):
        # potential-function examples: no normalisation in the model, the returned value is the largest possible increase
        # final - init of the potential (0 when the potential never increases); compared on the instance scaled to
        # init + final = 1 (the classes and the method are invariant under that scaling)
        _, final, init = perf
        scale = abs(init) + abs(final)
        if scale <= 1e-12:
            ctx.label("member-not-applicable")
            return
        inc = (final - init) / scale
        ctx.observe("max_increase:" + fam, inc)
        if inc > max(tau, 0.0) + 1e-6:
            ctx.fail("real-run-beats-bound:%s" % fam,
                     "%s%r returns %.9g but on a real %s member (seed %d, dimension %d) the potential goes from %.9g to %.9g"
                     % (fname, kwargs, tau, case["member"], case["seed"], case["n_dim"], init, final))
        ctx.nontrivial(final >= 0.5 * init)
        return
    ratio = perf / tau if tau > 0 else (0.0 if perf <= 1e-12 else float("inf"))
    ctx.observe("max_ratio:" + fam, ratio)
    if perf > tau * (1 + 1e-4) + 1e-9:
        ctx.fail("real-run-beats-bound:%s" % fam,
                 "%s%r returns %.9g but a real run of the method on a real %s member (seed %d, dimension %d) achieves %.9g"
                 % (fname, kwargs, tau, case["member"], case["seed"], case["n_dim"], perf))
    ctx.nontrivial(ratio >= 0.5)
