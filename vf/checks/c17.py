"""C17 - dual tables report each multiplier at the pair of points it belongs to.

Generated: class x parameters x sample history (as in C04: leaf / combination points, repeated evaluations,
stationary / fixed points, adjoint samples, named and unnamed points and functions), made bounded by a ball
normalisation and solved (CLARABEL).
Oracle: Function.get_class_constraints_duals() must return one table per condition; every class constraint is
located (by identity) in exactly one cell of Function.tables_of_constraints; the cell position must be the pair of
samples whose documented condition (vf/refconds.py, matched by affine functional) the constraint carries; the dual
table has the shape (#samples of the row list, #samples of the column list), the same row / column labels, the
constraint's multiplier at that cell and 0 in every other cell; the constraint's name spells the function id, the
condition (table key) and the ids of exactly that pair.
"""
import re

import numpy as np
from hypothesis import strategies as st

from vf import prog, sem, refconds
from vf.checks import c04

PROP = "C17"
CASES = {"quick": 5000, "thorough": 250000}
RULE = ("sample histories of vf/checks/c04.py (1-6 events, all 24 classes, named / unnamed), solved with a ball "
        "normalisation.  Non-trivial = finite solve, >= 3 samples and a condition that is not symmetric in the pair; "
        "distinct by case JSON.")
TRUSTED = ["vf/refconds.py", "vf/sem.py", "CLARABEL"]
ASSUMPTIONS = ["the key of a table is the condition name PEPit chose; only its agreement with the constraint names is checked"]


def strategy(tier):
    # resolve: False | True (one more sample, then a second solve) | "read" (tables read after the first solve, the model is
    # edited without touching the function's samples, second solve, tables read again)
    return st.tuples(c04._case(), st.sampled_from([False, False, True, "read"])).map(lambda t: dict(t[0], solve=True, resolve=t[1]))


def fixed_cases(tier):
    out = []
    for cls, p in (("BlockSmoothConvexFunction", {"d": 2, "Ls": [1.0, 2.0], "partition": 0}), ("LinearOperator", {"L": 2}),
                   ("SmoothStronglyConvexQuadraticFunction", {"mu": 0.1, "L": 1}), ("ConvexQGFunction", {"L": 1}),
                   ("SymmetricLinearOperator", {"mu": 0.1, "L": 1}), ("SmoothStronglyConvexFunction", {"mu": 0.1, "L": 1})):
        ev = [["eval", 0], ["eval", 1], ["stat", 0], ["eval", 2]] + ([["adjoint", 0], ["adjoint", 1]] if cls == "LinearOperator" else [])
        for named in (False, True):
            out.append({"cls": cls, "params": p, "npts": 3, "combos": [], "events": ev, "perm": list(range(len(ev))),
                        "solve": True, "metric": ["dot_gx", 0, 1], "named": named})
    return out


SYMMETRIC = ("monotonicity", "strong_monotonicity", "cocoercivity", "lipschitz_continuity", "negative_comonotonicity",
             "nonexpansiveness", "symmetry", "symmetric_linearity", "antisymmetric_linearity")


def point_id(triplets, k):
    x = triplets[k][0]
    return x.get_name() if x.get_name() is not None else "Point_%d" % k


def check_case(case, ctx):
    import pandas as pd
    from PEPit import Constraint
    cls = case["cls"]
    status, res = c04.solve_history(case, list(range(len(case["events"]))))
    H = c04.LAST.get("H")
    if res is None or status != "optimal":
        ctx.label("solve:none-or-inaccurate")
        return
    f = H.f
    if case.get("resolve"):
        # one more sample after the first solve, then a second solve of the same PEP: tables must be those of the latest
        from PEPit import Point
        with prog.quiet():
            if case["resolve"] == "read":
                try:
                    f.get_class_constraints_duals()
                except Exception:  # noqa   (judged below, on the tables of the latest solve)
                    pass
                mets = list(H.pep.list_of_performance_metrics)
                if mets:
                    H.pep.set_performance_metric(0.5 * mets[0])      # the optimum and every multiplier are halved
                ctx.label("resolve:tables-read-before")
            else:
                xn = Point()
                g = f.gradient(xn)
            try:
                res = H.pep.solve(verbose=0, solver="CLARABEL")
            except Exception as exc:  # noqa
                if type(exc).__name__ == "SolverError":
                    ctx.label("resolve:solver-error")
                    return
                raise
        status = getattr(getattr(H.pep.wrapper, "prob", None), "status", None)
        if status != "optimal" or res is None:
            ctx.label("resolve:none-or-inconclusive")
            return
        ctx.label("resolve")
    ctx.label("cls:" + cls)
    n = len(f.list_of_points)
    fid = f.get_name() if f.get_name() is not None else "Function_%s" % f.counter
    try:
        duals = f.get_class_constraints_duals()
    except Exception as exc:  # noqa
        ctx.fail("accessor-raises:%s:%s" % (cls, type(exc).__name__),
                 "%s.get_class_constraints_duals() raised %s: %s" % (cls, type(exc).__name__, exc))
        return
    tables = f.tables_of_constraints
    # reference labels of every class constraint, by functional
    ref = refconds.reference(f)
    pts, exprs = {}, {}
    funs = [sem.functional(c.expression) for c in f.list_of_class_constraints]
    for fun in funs + [x[1] for x in ref["scalar"]]:
        a, b = sem.leaves_of_fun(fun)
        for x in a:
            pts[id(x)] = x
        for x in b:
            exprs[id(x)] = x
    basis = sem.Basis(list(pts.values()), list(exprs.values()))
    R = c04.functional_rows([(s, fun, tag) for (s, fun, tag) in ref["scalar"]], basis)
    stat_idx = refconds.stationary_indices(f)
    used_cells = set()
    nonsym_seen = False
    for c, fun in zip(f.list_of_class_constraints, funs):
        sense = "eq" if c.equality_or_inequality == "equality" else "ineq"
        rows = c04.functional_rows([(sense, fun, None)], basis)
        if not rows:
            continue            # trivial functional (e.g. a pair of identical samples): nothing to locate
        v = rows[0][1]
        # locate the constraint object in the tables of constraints
        where = []
        for key, tab in tables.items():
            if not isinstance(tab, pd.DataFrame):
                ctx.fail("table-not-a-dataframe:%s" % cls, "tables_of_constraints[%r] is a %s" % (key, type(tab).__name__))
                return
            arr = tab.values
            for r in range(arr.shape[0]):
                for col in range(arr.shape[1]):
                    if arr[r, col] is c:
                        where.append((key, r, col))
        if len(where) != 1:
            ctx.fail("constraint-not-in-exactly-one-cell:%s" % cls,
                     "class constraint %r of %s appears in %d cells of the tables" % (c.get_name(), cls, len(where)))
            continue
        key, r, col = where[0]
        used_cells.add(where[0])
        # the pair(s) whose documented condition this constraint carries
        cands = [tag for (s2, v2, tag) in R if s2 == sense and np.max(np.abs(v - v2)) <= 1e-9]
        if not cands:
            ctx.label("constraint-without-reference(C04)")
            continue
        same_key = [t for t in cands if t[0] == key]
        if not same_key:
            ctx.fail("constraint-in-table-of-another-condition:%s" % cls,
                     "class constraint %r sits in table %r but carries the documented condition(s) %r"
                     % (c.get_name(), key, sorted(set(t[0] for t in cands))))
            continue
        cands = same_key
        ok_pos = False
        expected = []
        for (cond, i, j) in cands:
            if isinstance(i, tuple):          # stationary list x all samples
                pos = (i[1], j)
                rows_list, cols_list = f.list_of_stationary_points, f.list_of_points
            elif j is None:                   # single-sample condition
                pos = (0, i)
                rows_list, cols_list = None, f.list_of_points
            elif cls == "LinearOperator" and cond == "adjoint_linearity":
                pos = (i, j)
                rows_list, cols_list = f.list_of_points, f.T.list_of_points
            else:
                pos = (i, j)
                rows_list, cols_list = f.list_of_points, f.list_of_points
            expected.append((cond, pos))
            if pos == (r, col):
                ok_pos = True
                shape = (1 if rows_list is None else len(rows_list), len(cols_list))
                if tuple(tables[key].shape) != shape:
                    ctx.fail("table-shape:%s" % cls, "table %r of %s has shape %r, expected %r (one row / column per "
                             "recorded sample)" % (key, cls, tuple(tables[key].shape), shape))
                # labels
                want_cols = [point_id(cols_list, k) for k in range(len(cols_list))]
                if list(tables[key].columns) != want_cols:
                    ctx.fail("table-column-labels:%s" % cls, "columns %r, expected %r" % (list(tables[key].columns), want_cols))
                if rows_list is not None:
                    want_rows = [point_id(rows_list, k) for k in range(len(rows_list))]
                    if list(tables[key].index) != want_rows:
                        ctx.fail("table-row-labels:%s" % cls, "rows %r, expected %r" % (list(tables[key].index), want_rows))
                # name
                if rows_list is None:
                    want_name = "IC_%s_%s(%s)" % (fid, key, point_id(cols_list, col))
                else:
                    want_name = "IC_%s_%s(%s, %s)" % (fid, key, point_id(rows_list, r), point_id(cols_list, col))
                if c.get_name() != want_name:
                    ctx.fail("constraint-name:%s" % cls, "constraint at cell (%d, %d) of table %r is named %r, expected %r"
                             % (r, col, key, c.get_name(), want_name))
                if cond not in SYMMETRIC and not isinstance(i, tuple) and j is not None:
                    nonsym_seen = True
        if not ok_pos:
            ctx.fail("multiplier-at-wrong-pair:%s" % cls,
                     "class constraint %r sits in cell (%d, %d) of table %r but carries the documented condition of %r"
                     % (c.get_name(), r, col, key, expected))
            continue
        if key not in duals:
            ctx.fail("dual-table-missing:%s" % cls, "no dual table for condition %r" % key)
            continue
        try:
            got = float(duals[key].values[r, col])
        except Exception as exc:  # noqa
            ctx.fail("dual-table-shape:%s" % cls, "dual table %r has no cell (%d, %d): %s" % (key, r, col, exc))
            continue
        if got != float(c.eval_dual()):
            ctx.fail("dual-table-entry:%s" % cls, "dual table %r cell (%d, %d) = %r but the constraint of that pair has multiplier %r"
                     % (key, r, col, got, c.eval_dual()))
    # every other cell is zero, shapes and labels agree with the tables of constraints
    for key, tab in tables.items():
        if key not in duals:
            ctx.fail("dual-table-missing:%s" % cls, "no dual table for condition %r" % key)
            continue
        d = duals[key]
        if tuple(d.shape) != tuple(tab.shape) or list(d.columns) != list(tab.columns) or list(d.index) != list(tab.index):
            ctx.fail("dual-table-labels:%s" % cls, "dual table %r does not have the shape / labels of its table of constraints" % key)
            continue
        arr = tab.values
        for r in range(arr.shape[0]):
            for col in range(arr.shape[1]):
                if (key, r, col) in used_cells:
                    continue
                if isinstance(arr[r, col], Constraint):
                    if float(d.values[r, col]) != float(arr[r, col].eval_dual()):
                        ctx.fail("dual-table-entry:%s" % cls, "dual table %r cell (%d,%d) is not the multiplier of its constraint" % (key, r, col))
                elif float(d.values[r, col]) != 0.0:
                    ctx.fail("dual-table-nonzero-without-constraint:%s" % cls, "dual table %r cell (%d,%d) = %r without a constraint"
                             % (key, r, col, d.values[r, col]))
    # the class must expose its conditions: every non-trivial class constraint is named and tabulated
    if f.list_of_class_constraints and not tables:
        ctx.fail("no-tables:%s" % cls, "%s has %d class constraints but no table of constraints / duals" % (cls, len(f.list_of_class_constraints)))
    ctx.nontrivial(n >= 3 and nonsym_seen or (n >= 3 and cls in c04.LMI_CLASSES))
