"""C14 - dimension-reduction post-processing keeps the guarantee it started from.

Generated: solvable models (multi-step, so that the plain worst case has rank >= 2) x heuristic in {trace, logdet0..3} x
tol_dimension_reduction x eig_regularization x {cvxpy, mosek stand-in} x {primal, dual}, with scaled initial
conditions so that optimal values above and below 1 occur.
Oracle, against a plain solve of the same program built afresh:
  * dual mode: same value as the plain solve, and the C01 certificate identity holds for the sent list (the
    multipliers are those of the ORIGINAL problem);
  * the primal value (return in primal mode / objective.eval()) is >= tau* - tol_dimension_reduction - solver tol and
    <= dual + solver tol;
  * the returned instance satisfies every sent constraint / LMI and its leaves reproduce the solver's Gram matrix;
  * trace: trace(G_after) <= trace(G_plain) + tol ;
  * cvxpy back-end: the constraint added before the heuristic is exactly  objective >= wc_value - tol.
"""
import numpy as np
from hypothesis import strategies as st

from vf import gen, prog, sem, oracles, mosek_env
from vf.checks import c11

PROP = "C14"
CASES = {"quick": 800, "thorough": 50000}
RULE = ("models of vf/gen.py (2-3 steps, extras) and low-eigenvalue models (inexact directions of tiny norm) x {trace, "
        "logdet0..3} x tol in {1e-6..1e-1} x eig_regularization in {1e-6..1e-1} x {cvxpy, mosek stand-in} x {primal, dual}."
        " Non-trivial = plain optimum is finite with Gram rank >= 2; distinct by case JSON.")
TRUSTED = ["vf/sem.py", "CLARABEL", "vf/standin/mosek for the MOSEK half"]
ASSUMPTIONS = ["a heuristic re-solve that the numerical solver fails on (status not optimal) is inconclusive"]


@st.composite
def _lowrank_model(draw):
    """one or two gradient steps plus an orthogonal error direction of tiny norm: the true worst case has an
    eigenvalue far below 1e-3 times the largest one, so thresholded and exact Gram matrices differ visibly."""
    em = gen.Emitter()
    L = draw(st.sampled_from([1, 2, 0.5]))
    mu = round(L * draw(st.sampled_from([0.1, 0.2, 0.5])), 3)
    f = em.func("SmoothStronglyConvexFunction", {"mu": mu, "L": L}, None, False)
    x0 = em.init_point(None)
    xs, fs = em.stat(f, None)
    g0, f0 = em.oracle(f, x0)
    e = em.emit("new_point")["P"][0]
    gamma = round(draw(gen.frac) * 1.5 / L, 3)
    x1 = em.emit("lincomb", [[x0, 1], [g0, -gamma], [e, 1]])["P"][0]
    R = draw(st.sampled_from([1, 4, 100, 0.25]))
    eps = draw(st.sampled_from([5e-4, 1e-4, 2e-3])) * R
    d0 = em.expr("sqdist", x0, xs)
    em.emit("cons", "init", d0, "<=", R, None)
    ee = em.expr("sq", e)
    em.emit("cons", "pep", ee, "<=", eps, None)
    dx = em.emit("lincomb", [[x0, 1], [xs, -1]])["P"][0]
    em.emit("cons", "pep", em.expr("dot", e, dx), "==", 0, None)
    em.emit("cons", "pep", em.expr("dot", e, g0), "==", 0, None)
    em.emit("metric", em.expr("sqdist", x1, xs), None)
    return {"instrs": em.instrs, "meta": {"cls": "lowrank", "tags": ["lowrank"]}}


@st.composite
def _case(draw):
    pick = draw(st.integers(0, 7))
    if pick in (0, 1):
        m = draw(_lowrank_model())
    elif pick == 2:
        # leaves (stationary point, its function value) created by the class while its constraints are generated, i.e. after
        # the objective leaf: the objective is then not the last function value
        m = draw(gen.model_autostat())
    else:
        m = draw(gen.model(max_steps=3, allow_nonsym_lmi=False))
    o = {"wrapper": draw(st.sampled_from(["cvxpy", "cvxpy", "mosek"])), "solver": "CLARABEL", "verbose": draw(st.sampled_from([0, 0, 1])),
         "ret": draw(st.sampled_from(["dual", "primal"])),
         "drh": draw(st.sampled_from(["trace", "trace", "logdet0", "logdet1", "logdet2", "logdet3"])),
         "tol_dr": draw(st.sampled_from([1e-4, 1e-5, 1e-3, 1e-2, 1e-6, 1e-1])),
         "eig_reg": draw(st.sampled_from([1e-3, 1e-5, 1e-2, 1e-4, 1e-1, 1e-6]))}
    return {"instrs": m["instrs"], "opts": o, "cls": m["meta"]["cls"], "scale": draw(st.sampled_from([1, 1, 25, 400, 0.04]))}


def strategy(tier):
    return _case()


def fixed_cases(tier):
    base = [["func", "SmoothStronglyConvexFunction", {"mu": 0.1, "L": 1}, None, False], ["init_point", None],
            ["stat", 0, None], ["gd", 0, 0, 1.0], ["gd", 0, 3, 1.0], ["expr", "sqdist", 0, 1],
            ["cons", "init", 3, "<=", 100, None], ["expr", "sqdist", 5, 1], ["metric", 4, None]]
    out = []
    for w in ("cvxpy", "mosek"):
        for drh in ("trace", "logdet1", "logdet3"):
            for ret in ("primal", "dual"):
                out.append({"instrs": base, "cls": "fixed", "scale": 1,
                            "opts": {"wrapper": w, "solver": "CLARABEL", "verbose": 0, "ret": ret, "drh": drh,
                                     "tol_dr": 1e-3, "eig_reg": 1e-3}})
    return out


def scaled(instrs, scale):
    """multiply the right-hand side of the initial condition (changes the magnitude of the optimum)"""
    if scale == 1:
        return instrs
    out = []
    for ins in instrs:
        if ins[0] == "cons" and ins[1] == "init" and isinstance(ins[4], (int, float)):
            ins = list(ins)
            ins[4] = ins[4] * scale
        out.append(ins)
    return out


def check_case(case, ctx):
    opts = case["opts"]
    instrs = scaled(case["instrs"], case.get("scale", 1))
    side = opts["wrapper"]
    k = oracles.TOL["CLARABEL"]
    plain_opts = {"wrapper": side, "solver": "CLARABEL", "verbose": 0, "ret": "dual"}
    def status_of(env):
        w = env.pep.wrapper
        if side == "cvxpy":
            return getattr(getattr(w, "prob", None), "status", None)
        return getattr(getattr(w, "task", None), "cvxpy_status", None)

    env0, tau, exc0 = c11.solve_side(instrs, plain_opts, side)
    if exc0 is not None:
        if type(exc0).__name__ == "SolverError" or (side == "mosek" and status_of(env0) != "optimal"):
            ctx.label("inconclusive:plain-solver-failure")
            return
        raise exc0

    if tau is None or status_of(env0) != "optimal" or not np.isfinite(tau):
        ctx.label("plain:none-or-inaccurate")
        return
    G_plain = np.asarray(env0.pep.wrapper.get_primal_variables()[0], dtype=float)
    ev = np.linalg.eigvalsh((G_plain + G_plain.T) / 2)
    rank_plain = int(np.sum(ev > 1e-6 * max(ev.max(), 1e-12)))
    primal_plain = float(env0.pep.objective.eval())

    env, res, exc = c11.solve_side(instrs, opts, side)
    if exc is not None:
        if type(exc).__name__ == "SolverError" or status_of(env) not in ("optimal",):
            ctx.label("inconclusive:heuristic-solver-failure")
            return
        raise exc
    if status_of(env) != "optimal":
        ctx.label("inconclusive:heuristic-status-%s" % status_of(env))
        return
    ctx.label("side:" + side)
    ctx.label("drh:" + opts["drh"])
    if res is None:
        ctx.fail("none-with-heuristic", "plain solve returns %r but the solve with %s returns None" % (tau, opts["drh"]))
        return
    pep = env.pep
    oracles.check_heuristic_objective(ctx, pep.wrapper)
    # the point returned by the last (heuristic) solve is only judged when it satisfies the solver's own problem: with
    # eig_regularization 1e-6 the weights reach 1e6 and CLARABEL can report 'optimal' at a point that violates it by 0.1
    primal_reliable = not oracles.solver_point_infeasible(pep.wrapper, ctx)
    tol_dr = opts["tol_dr"]
    scale = 1 + abs(tau)
    lc, ll = list(pep._list_of_constraints_sent_to_wrapper), list(pep._list_of_psd_sent_to_wrapper)
    cert = oracles.certificate(pep, lc, ll)
    if "shape_error" in cert:
        ctx.fail("multiplier-shape", cert["shape_error"])
        return
    tol = k * (cert["scale"] + abs(cert["const"]))
    cert_ok = True
    if cert["max_nonconst"] > tol:
        ctx.fail("certificate-not-of-original-problem", "with %s the exposed multipliers no longer prove the bound: "
                 "identity residual %.3e (tol %.1e)" % (opts["drh"], cert["max_nonconst"], tol))
        cert_ok = False
    if cert["min_ineq_dual"] < -tol or cert["min_eig_S"] < -tol or cert["min_eig_L"] < -tol:
        ctx.fail("multiplier-sign-after-heuristic", "negative multiplier / non-PSD residual after the heuristic")
    dual = cert["const"] if cert_ok else None
    if dual is not None and abs(dual - tau) > 3 * k * scale:
        ctx.fail("dual-bound-changed", "plain dual bound %.9g, with %s the certificate constant is %.9g" % (tau, opts["drh"], dual))
    if opts["ret"] == "dual" and abs(res - tau) > 3 * k * scale:
        ctx.fail("dual-return-changed", "plain solve returns %.9g, with %s the dual return is %.9g" % (tau, opts["drh"], res))
    primal = float(pep.objective.eval())
    if opts["ret"] == "primal" and abs(res - primal) > 1e-9 * scale:
        ctx.fail("primal-return-not-objective", "primal return %.12g, objective evaluates to %.12g" % (res, primal))
    ctx.observe("primal_shortfall/tol_dr", (primal_plain - primal) / tol_dr)
    if primal_reliable and primal < primal_plain - 1.05 * tol_dr - 1e-6 * scale:
        ctx.fail("primal-below-stated-tolerance", "primal value %.9g is more than tol_dimension_reduction=%g below the "
                 "optimum %.9g" % (primal, tol_dr, primal_plain))
    if primal_reliable and primal > tau + 5 * k * scale:
        ctx.fail("primal-exceeds-dual", "primal value %.9g exceeds the dual bound %.9g" % (primal, tau))

    # returned instance
    pts = oracles.leaf_points()
    G_after = np.asarray(pep.wrapper.get_primal_variables()[0], dtype=float)
    try:
        Pm = np.array([np.asarray(p.eval(), dtype=float) for p in pts]).T
        val = oracles.leaf_valuation()
    except Exception as exc2:  # noqa
        ctx.fail("leaf-without-value", str(exc2))
        return
    gscale = 1.0 + float(np.max(np.abs(G_after)))
    if np.asarray(pep.G_value).shape != G_after.shape or float(np.max(np.abs(np.asarray(pep.G_value, dtype=float) - G_after))) > 1e-12 * gscale:
        ctx.fail("G_value-not-solver-gram", "PEP.G_value is not the Gram matrix found by the (last) solver call")
    err = float(np.max(np.abs(Pm.T @ Pm - oracles.psd_projection(G_after))))
    if err > 1e-9 * gscale:  # a factorisation, not a solve: round-off tolerance (DESIGN §9, round 15)
        ctx.fail("gram-mismatch", "leaf points do not reproduce the PSD projection of the solver's Gram matrix (error %.3e)" % err)
    worst = 0.0
    for c in lc:
        v, mag = sem.val_expr(c.expression, val)
        viol = v if c.equality_or_inequality == "inequality" else abs(v)
        worst = max(worst, viol / (1 + mag))
    for m in ll:
        V, mag = oracles.lmi_value(m, val)
        if V.size:
            worst = max(worst, max(-float(np.min(np.linalg.eigvalsh((V + V.T) / 2))), float(np.max(np.abs(V - V.T)))) / (1 + mag))
    ctx.observe("instance_violation", worst)
    if worst > 5 * k and not oracles.solver_point_infeasible(pep.wrapper, ctx):
        ctx.fail("instance-infeasible-after-heuristic", "a sent constraint / LMI is violated by %.3e (relative) at the "
                 "instance returned with %s" % (worst, opts["drh"]))
    metrics = [sem.val_expr(e, val)[0] for e in env.declared_metrics]
    if primal_reliable and metrics and primal > min(metrics) + 5 * k * scale:
        ctx.fail("objective-above-min-metric", "objective %.9g exceeds the smallest metric %.9g" % (primal, min(metrics)))
    if opts["drh"] == "trace":
        tr_p, tr_a = float(np.trace(G_plain)), float(np.trace(G_after))
        ctx.observe("trace_increase/scale", (tr_a - tr_p) / (1 + abs(tr_p)))
        if primal_reliable and tr_a > tr_p + 5 * k * (1 + abs(tr_p)) + 0.0:
            ctx.fail("trace-increased", "trace of the Gram matrix went from %.9g (plain) to %.9g (trace heuristic)" % (tr_p, tr_a))
    # white box, cvxpy back-end: the added constraint is objective >= wc - tol exactly
    if side == "cvxpy":
        w = pep.wrapper
        try:
            extra = w._list_of_solver_constraints[-1]
            lhs = float(np.sum(extra.args[0].value))
            wc = None
            for evn in getattr(w, "events", []):
                pass
            # the first (plain) optimum of this very solve is the objective value before the heuristic.  The plain solve of the
            # same program (same solver, deterministic) gives it to ~1e-9, so the floor is compared to a fraction of the stated
            # tolerance itself (a floor of 1e-4 for a stated 1e-6 must be seen)
            if abs(lhs - (primal_plain - tol_dr)) > 0.05 * tol_dr + 1e-7 * scale:
                ctx.fail("heuristic-constraint-not-wc-minus-tol", "the constraint added before the heuristic bounds the "
                         "objective below by %.12g, expected optimum - tol = %.12g (tol_dimension_reduction = %g)"
                         % (lhs, primal_plain - tol_dr, tol_dr))
        except Exception:  # noqa
            ctx.label("whitebox-unavailable")
    ev2 = np.linalg.eigvalsh((G_after + G_after.T) / 2)
    rank_after = int(np.sum(ev2 > 1e-6 * max(ev2.max(), 1e-12)))
    ctx.label("rank:%s->%s" % (min(rank_plain, 5), min(rank_after, 5)))
    if abs(tau) > 1:
        ctx.label("optimum>1")
    ctx.nontrivial(rank_plain >= 2)
