"""C11 - both solver back-ends solve the same problem and report duals in one convention.

Generated: models (standard templates; > 128 scalar rows; LMIs created-but-not-added / added out of creation order /
function-level next to class LMIs; classes that create leaves while class constraints are generated) x
{no heuristic, trace, logdetN} x {dual, primal}.  Each program is built twice (fresh PEP each time) and solved with
wrapper='cvxpy' (CLARABEL) and wrapper='mosek' (MosekWrapper driven against the executable stand-in mosek module).
Oracle: both finite (only models that the cvxpy side solves to 'optimal' are judged); same value; on EACH side the
C01 certificate identity holds for that side's own sent-constraint list with that side's multipliers (this is what
pins 'multipliers attached to the same constraints in the same sign convention'), inequality multipliers >= 0,
residual / LMI multipliers PSD; on each side the returned instance is feasible and its leaves reproduce the Gram
matrix (C02 oracle).
"""
import numpy as np
from hypothesis import strategies as st

from vf import gen, prog, sem, oracles, mosek_env

PROP = "C11"
CASES = {"quick": 800, "thorough": 30000}
RULE = ("model templates of vf/gen.py (model / model_big / model_lmi_order / model_autostat) x dimension reduction x "
        "primal/dual, solved through CvxpyWrapper+CLARABEL and through MosekWrapper+stand-in. Non-trivial = finite on the "
        "cvxpy side and the model has an LMI, >= 100 scalar rows, a dimension-reduction option or leaves created during "
        "class-constraint generation; distinct by case JSON.")
TRUSTED = ["vf/standin/mosek (documented MOSEK semantics and dual conventions, solved with CLARABEL)", "vf/sem.py", "CLARABEL"]
ASSUMPTIONS = ["real MOSEK cannot be run offline: statements about the MOSEK back-end are relative to the stand-in",
               "unbounded / infeasible models are not judged on the MOSEK side (solution semantics of real MOSEK on such "
               "problems are not emulated)"]


@st.composite
def _case(draw):
    kind = draw(st.sampled_from(["std", "std", "std", "lmi_order", "lmi_order", "autostat", "big", "wild", "wild"]))
    if kind == "wild":
        m = draw(gen.wild_model(max_len=12))
    elif kind == "std":
        m = draw(gen.model(max_steps=3, allow_nonsym_lmi=True))
    elif kind == "lmi_order":
        m = draw(gen.model_lmi_order())
    elif kind == "autostat":
        m = draw(gen.model_autostat())
    else:
        m = draw(gen.model_big())
    o = draw(gen.solve_options(solvers=("CLARABEL",), allow_drh=(kind != "big")))
    o["verbose"] = draw(st.sampled_from([0, 0, 1]))
    return {"instrs": m["instrs"], "opts": o, "tags": m["meta"]["tags"], "cls": m["meta"]["cls"], "kind": kind,
            "scale": draw(st.sampled_from([1, 1, 1, 25, 400]))}


def strategy(tier):
    return _case()


def fixed_cases(tier):
    base = [["func", "SmoothStronglyConvexFunction", {"mu": 0.1, "L": 1}, None, False], ["init_point", None],
            ["stat", 0, None], ["gd", 0, 0, 1.0], ["oracle", 0, 3], ["expr", "sqdist", 0, 1],
            ["cons", "init", 3, "<=", 1, None], ["expr", "sqdist", 3, 1], ["metric", 4, None]]
    o = {"wrapper": "cvxpy", "solver": "CLARABEL", "verbose": 0, "ret": "dual"}
    lmi = base + [["new_expr"], ["lmi", "pep", [[["e", 4], ["e", 5]], [["e", 5], ["n", 1]]], False, None], ["metric", 5, None]]
    return [{"instrs": base, "opts": o, "tags": [], "cls": "fixed", "kind": "std"},
            {"instrs": lmi, "opts": o, "tags": ["lmi"], "cls": "fixed", "kind": "std"},
            {"instrs": lmi, "opts": dict(o, drh="trace", ret="primal"), "tags": ["lmi"], "cls": "fixed", "kind": "std"},
            {"instrs": base, "opts": dict(o, drh="logdet2"), "tags": [], "cls": "fixed", "kind": "std"}]


def solve_side(instrs, opts, side):
    env = prog.run_program(instrs)
    kw = prog.decode_solve_options(opts)
    kw.pop("wrapper", None)
    exc = None
    res = None
    with prog.quiet(), oracles.heuristic_spy():
        try:
            if side == "cvxpy":
                res = env.pep.solve(wrapper="cvxpy", **kw)
            else:
                kw.pop("solver", None)
                res = mosek_env.solve(env.pep, **kw)
        except Exception as e:  # noqa
            exc = e
    return env, res, exc


def side_checks(ctx, env, res, opts, side, k):
    """certificate + primal checks for one back-end; returns dict(dual, primal) or None"""
    pep = env.pep
    lc, ll = list(pep._list_of_constraints_sent_to_wrapper), list(pep._list_of_psd_sent_to_wrapper)
    try:
        cert = oracles.certificate(pep, lc, ll)
    except Exception as exc:  # noqa
        ctx.fail("%s:multipliers-unavailable:%s" % (side, type(exc).__name__), str(exc))
        return None
    if "shape_error" in cert:
        ctx.fail("%s:multiplier-shape" % side, cert["shape_error"])
        return None
    # 3 k like the cross-back-end value comparisons of this check: on models with three LMIs CLARABEL's dual residual was seen at
    # 1.5 k (3.4e-4 for terms of size 11.5) on BOTH back-ends, which is the accuracy of the solver, not a property of a wrapper
    tol = 3 * k * (cert["scale"] + abs(cert["const"]))
    ok = True
    if cert["max_nonconst"] > tol:
        ctx.fail("%s:certificate-identity" % side, "certificate identity residual %.3e (tol %.1e) with the multipliers "
                 "attached by the %s back-end" % (cert["max_nonconst"], tol, side))
        ok = False
    if cert.get("entry_sym_err", 0.0) > tol:
        ctx.fail("%s:entry-multipliers-inconsistent-with-lmi-multiplier" % side,
                 "symmetric part of entries_dual_variable_value differs from the LMI multiplier by %.3e" % cert["entry_sym_err"])
    if cert["min_ineq_dual"] < -tol:
        ctx.fail("%s:negative-inequality-multiplier" % side, "%.3e" % cert["min_ineq_dual"])
    if cert["min_eig_S"] < -tol:
        ctx.fail("%s:residual-not-psd" % side, "min eigenvalue %.3e" % cert["min_eig_S"])
    if cert["min_eig_L"] < -tol:
        ctx.fail("%s:lmi-multiplier-not-psd" % side, "min eigenvalue %.3e" % cert["min_eig_L"])
    ctx.observe("%s:identity_residual/scale" % side, cert["max_nonconst"] / (cert["scale"] + abs(cert["const"])))
    # primal instance
    pts = oracles.leaf_points()
    G_solver, F_solver = pep.wrapper.get_primal_variables()
    G_solver = np.asarray(G_solver, dtype=float)
    try:
        Pm = np.array([np.asarray(p.eval(), dtype=float) for p in pts]).T
        val = oracles.leaf_valuation()
    except Exception as exc:  # noqa
        ctx.fail("%s:leaf-without-value" % side, str(exc))
        return None
    gscale = 1.0 + float(np.max(np.abs(G_solver)))
    err = float(np.max(np.abs(Pm.T @ Pm - oracles.psd_projection(G_solver))))
    if err > 1e-9 * gscale:  # a factorisation, not a solve: round-off tolerance (DESIGN §9, round 15)
        ctx.fail("%s:gram-mismatch" % side, "leaf points do not reproduce the Gram matrix (error %.3e)" % err)
    worst = 0.0
    for c in lc:
        v, mag = sem.val_expr(c.expression, val)
        viol = v if c.equality_or_inequality == "inequality" else abs(v)
        worst = max(worst, viol / (1 + mag))
    for m in ll:
        V, mag = oracles.lmi_value(m, val)
        if V.size:
            worst = max(worst, max(-float(np.min(np.linalg.eigvalsh((V + V.T) / 2))), float(np.max(np.abs(V - V.T)))) / (1 + mag))
    if worst > 5 * k and not oracles.solver_point_infeasible(pep.wrapper, ctx):
        ctx.fail("%s:instance-infeasible" % side, "a sent constraint / LMI is violated by %.3e (relative) at the returned instance" % worst)
    primal = float(pep.objective.eval())
    if opts.get("ret", "dual") == "dual" and ok and abs(res - cert["const"]) > 1e-7 * (1 + abs(cert["const"]) + cert["scale"]):
        ctx.fail("%s:dual-value-not-identity-constant" % side, "returned %.12g, identity constant %.12g" % (res, cert["const"]))
    if opts.get("ret") == "primal" and abs(res - primal) > 1e-9 * (1 + abs(primal)):
        ctx.fail("%s:primal-return-not-objective" % side, "returned %.12g, objective evaluates to %.12g" % (res, primal))
    if opts.get("drh") and ok:
        # the heuristic may lose at most tol_dimension_reduction on the objective, on either back-end
        ctx.observe("%s:primal_shortfall/tol_dr" % side, (cert["const"] - primal) / opts.get("tol_dr", 1e-4))
        if primal < cert["const"] - opts.get("tol_dr", 1e-4) - 5 * k * (1 + abs(cert["const"])):
            ctx.fail("%s:primal-below-stated-tolerance" % side,
                     "after %s the primal value %.9g is more than tol_dimension_reduction=%g below the bound %.9g"
                     % (opts["drh"], primal, opts.get("tol_dr", 1e-4), cert["const"]))
    return {"dual": cert["const"] if ok else None, "primal": primal, "rows": len(lc), "lmis": len(ll)}


def check_case(case, ctx):
    from vf.checks.c14 import scaled
    opts = case["opts"]
    k = oracles.TOL["CLARABEL"]
    case = dict(case, instrs=scaled(case["instrs"], case.get("scale", 1)))
    envc, resc, excc = solve_side(case["instrs"], opts, "cvxpy")
    if excc is not None:
        if type(excc).__name__ == "SolverError" or opts.get("drh"):
            ctx.label("inconclusive:cvxpy-side-solver")
            return
        raise excc
    status = getattr(getattr(envc.pep.wrapper, "prob", None), "status", None)
    if resc is None or status != "optimal":
        ctx.label("cvxpy-side:none-or-inaccurate")
        return
    ctx.label("kind:" + case["kind"])
    sc = side_checks(ctx, envc, resc, opts, "cvxpy", k)
    oracles.check_heuristic_objective(ctx, envc.pep.wrapper, "cvxpy:")
    envm, resm, excm = solve_side(case["instrs"], opts, "mosek")
    task = getattr(envm.pep.wrapper, "task", None)
    if type(envm.pep.wrapper).__name__ != "MosekWrapper":
        from vf.core import HarnessError
        raise HarnessError("the mosek side did not run MosekWrapper")
    if getattr(task, "cvxpy_status", None) in ("infeasible", "unbounded"):
        # a clean certificate of infeasibility / unboundedness for the task MosekWrapper built, while the cvxpy back-end solved
        # the same model to optimality: the two back-ends were not given the same problem
        ctx.fail("mosek:task-%s-on-a-model-the-cvxpy-side-solves" % task.cvxpy_status,
                 "cvxpy back-end returns %r (optimal), the task built by the MOSEK back-end is %s" % (resc, task.cvxpy_status))
        return
    if excm is not None:
        if getattr(task, "cvxpy_status", "optimal") not in ("optimal",):
            ctx.label("inconclusive:mosek-side-heuristic-solver")
            return
        raise excm
    if getattr(task, "cvxpy_status", None) != "optimal":
        ctx.label("inconclusive:standin-status-%s" % getattr(task, "cvxpy_status", None))
        return
    if resm is None or not np.isfinite(resm):
        ctx.fail("mosek:none-on-bounded-model", "cvxpy back-end returns %r, MOSEK back-end %r" % (resc, resm))
        return
    sm = side_checks(ctx, envm, resm, opts, "mosek", k)
    oracles.check_heuristic_objective(ctx, envm.pep.wrapper, "mosek:")
    scale = 1 + abs(resc)
    tol = 3 * k * scale
    if opts.get("drh") and opts.get("ret") == "primal":
        tol += 2.5 * opts.get("tol_dr", 1e-4)
    if abs(resc - resm) > tol:
        ctx.fail("value-differs-between-backends", "cvxpy back-end returns %.9g, MOSEK back-end %.9g" % (resc, resm))
    ctx.observe("value_diff/scale", abs(resc - resm) / scale)
    if sc and sm:
        if sc["rows"] != sm["rows"] or sc["lmis"] != sm["lmis"]:
            ctx.fail("sent-list-sizes-differ", "cvxpy side sent %r, mosek side %r" % ((sc["rows"], sc["lmis"]), (sm["rows"], sm["lmis"])))
        if sc["dual"] is not None and sm["dual"] is not None and abs(sc["dual"] - sm["dual"]) > 3 * k * scale:
            ctx.fail("dual-bound-differs-between-backends", "%.9g vs %.9g" % (sc["dual"], sm["dual"]))
        if not opts.get("drh") and abs(sc["primal"] - sm["primal"]) > 3 * k * scale:
            ctx.fail("primal-value-differs-between-backends", "%.9g vs %.9g" % (sc["primal"], sm["primal"]))
        rows = sc["rows"]
        if rows >= 100:
            ctx.label("rows>=100")
        ctx.nontrivial(bool(sc["lmis"]) or rows >= 100 or bool(opts.get("drh")) or case["kind"] == "autostat")
    chk = getattr(task, "selfcheck", {})
    if chk:
        ctx.observe("standin:bars_sign_violation", chk.get("bars_sign_violation", 0.0))
        ctx.observe("standin:free_var_stationarity", chk.get("free_var_stationarity", 0.0))
    if opts.get("drh"):
        ctx.label("dimension-reduction")
    for t in case.get("tags", []):
        ctx.label("tag:" + t)
