"""C06 - Point / expression algebra is a faithful vector-space and inner-product calculus.

Generated: typed expression trees over leaf points, leaf expressions and int/float scalars using every
operator overload, plus a valuation of the leaves.  Oracle: a reference interpreter evaluates the *tree*
in numpy; the PEPit object built by the real operators is evaluated through vf.sem (which only reads
decomposition dictionaries) and must agree.  Operands are snapshotted before and compared after each
operation.  A second, exhaustive stream applies every operator to every ordered pair of operand kinds and
requires undocumented combinations to raise.
"""
import itertools
import warnings

import numpy as np
from hypothesis import strategies as st

from vf import sem

PROP = "C06"
CASES = {"quick": 12000, "thorough": 800000}
RULE = ("typed random expression trees (depth<=6) over 4 leaf points, 3 leaf expressions and int/float scalars "
        "(zero, negative, repeated operands, p*q and q*p, p**2, right-hand operators, 5 comparisons) with a "
        "generated valuation (dimension 1..4); plus the exhaustive table operator x operand-kind x operand-kind. "
        "Non-trivial = tree with >= 3 operators containing a product of two non-leaf points or an exact "
        "cancellation (x - x, x + (-x)) ; distinct = distinct (tree, valuation) JSON.")
TRUSTED = ["vf/sem.py (reads decomposition_dict only)", "numpy reference interpreter in vf/checks/c06.py"]
ASSUMPTIONS = ["numpy scalars / ndarrays as operands are out of scope (PEPit itself relies on numpy object "
               "broadcasting for those)", "bool operands are not generated (bool is an int subclass in Python)"]
CRASH_IS_HARNESS = False

NP, NE = 4, 3

# ----------------------------------------------------------------------------------------------------------------
# strategies
# ----------------------------------------------------------------------------------------------------------------
_scalar_values = st.one_of(
    st.sampled_from([0, 1, -1, 2, -2, 3, 0.5, -0.5, 0.25, 1.5, -3.0, 0.0, 1.0, 10, 0.1]),
    st.sampled_from([1e-13, -1e-14, 1e-15, 1e13, 3e-13]),          # legal floats far from 1: nothing may be rounded away
    st.sampled_from([0, 1, -1, 2, 0.5]),
    st.integers(min_value=-5, max_value=5),
    st.floats(min_value=-8, max_value=8, allow_nan=False, allow_infinity=False, width=32).map(
        lambda x: float(round(x, 3))),
)
S = _scalar_values.map(lambda v: ["n", v])
S_nonzero = _scalar_values.filter(lambda v: abs(v) > 1e-2).map(lambda v: ["n", v])


def _P(depth):
    leaf = st.integers(0, NP - 1).map(lambda k: ["p", k])
    if depth == 0:
        return leaf
    sub = _P(depth - 1)
    return st.one_of(
        leaf,
        st.tuples(sub, sub).map(lambda t: ["add", t[0], t[1]]),
        st.tuples(sub, sub).map(lambda t: ["sub", t[0], t[1]]),
        sub.map(lambda a: ["neg", a]),
        st.tuples(sub, S).map(lambda t: ["mul", t[0], t[1]]),
        st.tuples(S, sub).map(lambda t: ["mul", t[0], t[1]]),
        st.tuples(sub, S_nonzero).map(lambda t: ["div", t[0], t[1]]),
        sub.map(lambda a: ["sub", a, a]),          # exact cancellation
        sub.map(lambda a: ["add", a, ["neg", a]]),  # exact cancellation
        st.tuples(st.sampled_from(["add", "sub"]), sub).map(lambda t: ["same", t[0], t[1]]),   # same object twice
        st.tuples(sub, sub).map(lambda t: ["add", t[0], t[1]]),
        st.tuples(st.sampled_from(["add", "sub"]), leaf, _bigsum(leaf)).map(lambda t: [t[0], t[1], t[2]]),
        st.tuples(st.sampled_from(["add", "sub"]), _bigsum(leaf), leaf).map(lambda t: [t[0], t[1], t[2]]),
    )


def _fold(terms):
    t = terms[0]
    for op, x in terms[1:]:
        t = [op, t, x]
    return t


def _bigsum(leaf):
    """a long sum of 3..7 small terms (many distinct keys)"""
    return st.tuples(leaf, st.lists(st.tuples(st.sampled_from(["add", "add", "sub"]), leaf), min_size=2, max_size=6)).map(
        lambda t: _fold([t[0]] + [list(x) for x in t[1]]))


def _E(depth):
    leaf = st.one_of(st.integers(0, NE - 1).map(lambda k: ["e", k]),
                     st.tuples(_P(0), _P(0)).map(lambda t: ["mul", t[0], t[1]]),
                     _P(0).map(lambda a: ["pow2", a]))
    if depth == 0:
        return leaf
    sub = _E(depth - 1)
    small = _E(0)
    psub = _P(depth - 1)
    binop = st.sampled_from(["add", "sub"])
    return st.one_of(
        leaf,
        st.tuples(psub, psub).map(lambda t: ["mul", t[0], t[1]]),
        st.tuples(psub, psub).map(lambda t: ["mul", t[0], t[1]]),
        psub.map(lambda a: ["pow2", a]),
        st.tuples(binop, sub, sub).map(lambda t: [t[0], t[1], t[2]]),
        st.tuples(binop, sub, sub).map(lambda t: [t[0], t[1], t[2]]),
        st.tuples(binop, small, _bigsum(small)).map(lambda t: [t[0], t[1], t[2]]),   # short (op) long sum
        st.tuples(binop, _bigsum(small), small).map(lambda t: [t[0], t[1], t[2]]),   # long sum (op) short
        st.tuples(binop, _bigsum(small), _bigsum(small)).map(lambda t: [t[0], t[1], t[2]]),
        st.tuples(binop, small, sub).map(lambda t: [t[0], t[1], t[2]]),      # short (op) long
        st.tuples(binop, sub, small).map(lambda t: [t[0], t[1], t[2]]),      # long (op) short
        st.tuples(binop, sub, S).map(lambda t: [t[0], t[1], t[2]]),
        st.tuples(binop, S, sub).map(lambda t: [t[0], t[1], t[2]]),
        sub.map(lambda a: ["neg", a]),
        st.tuples(sub, S).map(lambda t: ["mul", t[0], t[1]]),
        st.tuples(S, sub).map(lambda t: ["mul", t[0], t[1]]),
        st.tuples(sub, S_nonzero).map(lambda t: ["div", t[0], t[1]]),
        st.tuples(binop, sub).map(lambda t: ["same", t[0], t[1]]),          # x (op) x with the SAME object twice
        st.tuples(st.sampled_from(["iadd", "isub"]), sub, sub).map(lambda t: [t[0], t[1], t[2]]),   # r = a; r += b  (a must not change)
        # a scalar on the left of an expression that itself carries a constant: s - (e + c), s + (c - e), s - (c - e)
        st.tuples(binop, S, binop, sub, S).map(lambda t: [t[0], t[1], [t[2], t[3], t[4]]]),
        st.tuples(binop, S, binop, S, sub).map(lambda t: [t[0], t[1], [t[2], t[3], t[4]]]),
        sub.map(lambda a: ["sub", a, a]),
        st.tuples(psub, psub).map(lambda t: ["sub", ["mul", t[0], t[1]], ["mul", t[1], t[0]]]),  # mirrored
    )


def _C(depth):
    e = _E(depth)
    ops = st.sampled_from(["<=", ">=", "==", "<", ">"])
    return st.one_of(
        st.tuples(ops, e, e).map(lambda t: ["cmp", t[0], t[1], t[2]]),
        st.tuples(ops, e, S).map(lambda t: ["cmp", t[0], t[1], t[2]]),
        st.tuples(ops, S, e).map(lambda t: ["cmp", t[0], t[1], t[2]]),
    )


_dyadic = st.integers(-12, 12).map(lambda k: k / 4.0)


@st.composite
def _case(draw, maxdepth):
    depth = draw(st.integers(1, maxdepth))
    kind = draw(st.sampled_from(["P", "E", "E", "C"]))
    tree = draw({"P": _P, "E": _E, "C": _C}[kind](depth))
    n = draw(st.integers(1, 4))
    pv = draw(st.lists(st.lists(_dyadic, min_size=n, max_size=n), min_size=NP, max_size=NP))
    ev = draw(st.lists(_dyadic, min_size=NE, max_size=NE))
    return {"kind": "tree", "tree": tree, "pv": pv, "ev": ev}


def strategy(tier):
    return _case(4 if tier == "quick" else 6)


KINDS = ["P", "Pd", "E", "Ed", "int", "float", "None", "str", "list", "dict", "complex", "Function",
         "Constraint", "PSDMatrix"]
BINOPS = ["+", "-", "*", "/", "**", "<=", ">=", "==", "<", ">"]


def fixed_cases(tier):
    out = []
    for op, a, b in itertools.product(BINOPS, KINDS, KINDS):
        out.append({"kind": "kinds", "op": op, "a": a, "b": b})
    for a in KINDS:
        out.append({"kind": "kinds", "op": "neg", "a": a, "b": "None"})
    return out


# ----------------------------------------------------------------------------------------------------------------
# reference interpreter:  value, magnitude, type
# ----------------------------------------------------------------------------------------------------------------
def ref_eval(t, pv, ev):
    op = t[0]
    if op == "p":
        v = np.array(pv[t[1]], dtype=float)
        return "P", v, float(np.sum(np.abs(v)))
    if op == "e":
        return "E", float(ev[t[1]]), abs(float(ev[t[1]]))
    if op == "n":
        return "S", float(t[1]), abs(float(t[1]))
    if op == "neg":
        k, v, m = ref_eval(t[1], pv, ev)
        return k, -v, m
    if op == "pow2":
        k, v, m = ref_eval(t[1], pv, ev)
        return "E", float(np.dot(v, v)), m * m
    if op == "same":
        k, v, m = ref_eval(t[2], pv, ev)
        return k, (v + v if t[1] == "add" else v - v), 2 * m
    ka, va, ma = ref_eval(t[1], pv, ev)
    kb, vb, mb = ref_eval(t[2], pv, ev)
    op = {"iadd": "add", "isub": "sub"}.get(op, op)
    if op == "add":
        return ("P" if ka == "P" else "E"), va + vb, ma + mb
    if op == "sub":
        return ("P" if ka == "P" else "E"), va - vb, ma + mb
    if op == "mul":
        if ka == "P" and kb == "P":
            return "E", float(np.dot(va, vb)), ma * mb
        if ka == "P" or kb == "P":
            return "P", va * vb, ma * mb
        return "E", va * vb, ma * mb
    if op == "div":
        return ka, va / vb, ma / abs(vb)
    raise ValueError(op)


def ref_sym(t):
    """symbolic reference: kind and coefficients {key: [value, magnitude]} over the leaves (keys ('p', k) for points,
    ('G', i, j) with i <= j, ('F', k), ('1',) for expressions; scalars under ('s',)).  The magnitude of a coefficient is the
    sum of the absolute values of the terms that were added into it: the comparison is per coefficient, relative to it, so
    a coefficient of 1e-13 next to coefficients of order one must still be there."""
    op = t[0]
    if op == "p":
        return "P", {("p", t[1]): [1.0, 1.0]}
    if op == "e":
        return "E", {("F", t[1]): [1.0, 1.0]}
    if op == "n":
        return "S", {("s",): [float(t[1]), abs(float(t[1]))]}

    def scale(d, c):
        return {k: [v * c, m * abs(c)] for k, (v, m) in d.items()}

    def plus(a, b, sign):
        out = {k: list(v) for k, v in a.items()}
        for k, (v, m) in b.items():
            if k in out:
                out[k] = [out[k][0] + sign * v, out[k][1] + m]
            else:
                out[k] = [sign * v, m]
        return out

    def as_expr(kind, d):
        return {("1",): d[("s",)]} if kind == "S" else d
    if op == "neg":
        k, d = ref_sym(t[1])
        return k, scale(d, -1.0)
    if op == "pow2":
        k, d = ref_sym(t[1])
        return "E", _dot(d, d)
    if op == "same":
        k, d = ref_sym(t[2])
        return k, plus(d, d, 1.0 if t[1] == "add" else -1.0)
    ka, da = ref_sym(t[1])
    kb, db = ref_sym(t[2])
    op = {"iadd": "add", "isub": "sub"}.get(op, op)
    if op in ("add", "sub"):
        sign = 1.0 if op == "add" else -1.0
        if ka == "P":
            return "P", plus(da, db, sign)
        if ka == "S" and kb == "S":
            return "S", plus(da, db, sign)
        return "E", plus(as_expr(ka, da), as_expr(kb, db), sign)
    if op == "mul":
        if ka == "P" and kb == "P":
            return "E", _dot(da, db)
        if ka == "S":
            return kb, scale(db, da[("s",)][0])
        return ka, scale(da, db[("s",)][0])
    if op == "div":
        return ka, scale(da, 1.0 / db[("s",)][0])
    raise ValueError(op)


def _dot(da, db):
    out = {}
    for (_p, i), (vi, mi) in da.items():
        for (_q, j), (vj, mj) in db.items():
            key = ("G", min(i, j), max(i, j))
            cur = out.get(key, [0.0, 0.0])
            out[key] = [cur[0] + vi * vj, cur[1] + mi * mj]
    return out


def coefficients_of(obj, builder):
    """coefficients of a PEPit object read from its decomposition, keyed like ref_sym"""
    from PEPit import Point
    pi = {id(p): k for k, p in enumerate(builder.points)}
    ei = {id(e): k for k, e in enumerate(builder.exprs)}
    out = {}
    if isinstance(obj, Point):
        for leaf, w in sem.point_coeffs(obj).items():
            out[("p", pi[id(leaf)])] = out.get(("p", pi[id(leaf)]), 0.0) + w
        return out
    items = [(obj, 1.0)] if obj.get_is_leaf() else list(obj.decomposition_dict.items())
    for k, w in items:
        if isinstance(k, tuple):
            i, j = pi[id(k[0])], pi[id(k[1])]
            key = ("G", min(i, j), max(i, j))
        elif isinstance(k, (int, float)):
            key = ("1",)
        else:
            key = ("F", ei[id(k)])
        out[key] = out.get(key, 0.0) + w
    return out


def compare_coefficients(ctx, tree, obj, builder, tag, report=True):
    try:
        kind, want = ref_sym(tree)
    except (ZeroDivisionError, OverflowError):
        return True
    got = coefficients_of(obj, builder)
    for key in set(want) | set(got):
        v, m = want.get(key, [0.0, 0.0])
        g = got.get(key, 0.0)
        if not (abs(g - v) <= 1e-9 * m + 1e-300):
            if report:
                ctx.fail("coefficient:%s" % tag, "coefficient of %r is %r, the operators written give %r (terms of magnitude "
                         "%.3g went into it)" % (key, g, v, m))
            return False
    return True


def count_ops(t):
    if t[0] in ("p", "e", "n"):
        return 0
    return 1 + sum(count_ops(x) for x in t[1:] if isinstance(x, list))


def has_interesting(t):
    """product of two non-leaf points, or an exact cancellation."""
    if t[0] in ("p", "e", "n"):
        return False
    if t[0] == "mul" and t[1][0] not in ("p", "e", "n") and t[2][0] not in ("p", "e", "n"):
        ka = _kind(t[1])
        kb = _kind(t[2])
        if ka == "P" and kb == "P":
            return True
    if t[0] == "pow2" and t[1][0] != "p":
        return True
    if t[0] == "sub" and t[1] == t[2]:
        return True
    if t[0] == "same":
        return True
    if t[0] == "add" and t[2][0] == "neg" and t[2][1] == t[1]:
        return True
    return any(has_interesting(x) for x in t[1:] if isinstance(x, list))


def _kind(t):
    op = t[0]
    if op == "p":
        return "P"
    if op == "e":
        return "E"
    if op == "n":
        return "S"
    if op == "pow2":
        return "E"
    if op in ("neg", "div"):
        return _kind(t[1])
    if op == "same":
        return _kind(t[2])
    ka, kb = _kind(t[1]), _kind(t[2])
    op = {"iadd": "add", "isub": "sub"}.get(op, op)
    if op == "mul":
        if ka == "P" and kb == "P":
            return "E"
        if "P" in (ka, kb):
            return "P"
        return "E"
    return "P" if ka == "P" else "E"


# ----------------------------------------------------------------------------------------------------------------
# PEPit interpreter with operand snapshots
# ----------------------------------------------------------------------------------------------------------------
def snapshot(obj):
    if isinstance(obj, (int, float)):
        return ("S", obj)
    d = obj.decomposition_dict
    items = []
    for k, w in d.items():
        if isinstance(k, tuple):
            items.append((tuple(id(q) for q in k), w))
        elif isinstance(k, (int, float)):
            items.append((("const", k), w))
        else:
            items.append((id(k), w))
    return (id(d), obj.get_is_leaf(), obj.counter, tuple(items))


class Builder(object):
    def __init__(self, ctx):
        from PEPit import PEP, Point, Expression
        self.pep = PEP()
        self.points = [Point() for _ in range(NP)]
        self.exprs = [Expression() for _ in range(NE)]
        self.ctx = ctx

    def build(self, t):
        from PEPit import Point, Expression
        op = t[0]
        if op == "p":
            return self.points[t[1]]
        if op == "e":
            return self.exprs[t[1]]
        if op == "n":
            return t[1]
        operands = [self.build(x) for x in t[1:] if isinstance(x, list)]
        if op == "same":
            operands = [operands[0], operands[0]]
            op = t[1]
        before = [snapshot(o) for o in operands]
        if op == "neg":
            res = -operands[0]
        elif op == "pow2":
            res = operands[0] ** 2
        elif op == "iadd":
            res = operands[0]
            res += operands[1]
        elif op == "isub":
            res = operands[0]
            res -= operands[1]
        elif op == "add":
            res = operands[0] + operands[1]
        elif op == "sub":
            res = operands[0] - operands[1]
        elif op == "mul":
            res = operands[0] * operands[1]
        elif op == "div":
            res = operands[0] / operands[1]
        else:
            raise ValueError(op)
        after = [snapshot(o) for o in operands]
        if before != after:
            self.ctx.fail("operand-mutated:%s" % op, "operation %s altered one of its operands" % op)
        for o in operands:
            if res is o and not isinstance(o, (int, float)):
                self.ctx.fail("result-aliases-operand:%s" % op, "operation %s returned one of its operands" % op)
        return res


def valuation_for(builder, pv, ev):
    v = sem.Valuation()
    for p, x in zip(builder.points, pv):
        v.set(p, np.array(x, dtype=float))
    for e, x in zip(builder.exprs, ev):
        v.set(e, float(x))
    return v


def close(a, b, mag):
    return np.all(np.abs(np.asarray(a) - np.asarray(b)) <= 1e-9 * (mag + 1.0))


def check_tree(case, ctx):
    from PEPit import Point, Expression, Constraint
    tree, pv, ev = case["tree"], case["pv"], case["ev"]
    b = Builder(ctx)
    val = valuation_for(b, pv, ev)
    n = len(pv[0])
    nops = count_ops(tree if tree[0] != "cmp" else ["add", tree[2], tree[3]])
    ctx.label("ops>=3" if nops >= 3 else "ops<3")
    if tree[0] == "cmp":
        ctx.label("kind:constraint")
        op = tree[1]
        L = b.build(tree[2])
        R = b.build(tree[3])
        before = [snapshot(L), snapshot(R)]
        with warnings.catch_warnings(record=True):
            warnings.simplefilter("always")
            if op == "<=":
                c = L <= R
            elif op == ">=":
                c = L >= R
            elif op == "==":
                c = L == R
            elif op == "<":
                c = L < R
            else:
                c = L > R
        if [snapshot(L), snapshot(R)] != before:
            ctx.fail("operand-mutated:cmp", "comparison %s altered an operand" % op)
        if not isinstance(c, Constraint):
            ctx.fail("cmp-not-constraint:%s" % op, "comparison %s returned %r" % (op, type(c)))
            return
        want_sense = "equality" if op == "==" else "inequality"
        if c.equality_or_inequality != want_sense:
            ctx.fail("cmp-sense:%s" % op, "comparison %s gave sense %s" % (op, c.equality_or_inequality))
        _, lv, lm = ref_eval(tree[2], pv, ev)
        _, rv, rm = ref_eval(tree[3], pv, ev)
        want = (lv - rv) if op in ("<=", "<", "==") else (rv - lv)
        got, gm = sem.val_expr(c.expression, val)
        ok = close(got, want, lm + rm + gm)
        if op == "==" and not ok:
            ok = close(got, -want, lm + rm + gm)
        if not ok:
            ctx.fail("cmp-meaning:%s" % op, "constraint expression denotes %r, expected %r (L-R for <=/==, R-L for >=)"
                     % (got, want))
        else:
            lr, rl = ["sub", tree[2], tree[3]], ["sub", tree[3], tree[2]]
            if op == "==":
                # an equality may be stored as L - R or R - L
                if not compare_coefficients(ctx, lr, c.expression, b, "constraint", report=False):
                    compare_coefficients(ctx, rl, c.expression, b, "constraint")
            else:
                compare_coefficients(ctx, lr if op in ("<=", "<") else rl, c.expression, b, "constraint")
        ctx.nontrivial(nops >= 3 and has_interesting(["add", tree[2], tree[3]]))
        return
    kind, want, mag = ref_eval(tree, pv, ev)
    ctx.label("kind:" + kind)
    res = b.build(tree)
    if kind == "P":
        if not isinstance(res, Point):
            ctx.fail("type:P", "expected a Point, got %r" % type(res))
            return
        got = sem.val_point(res, val, dim=n)
        if not close(got, want, mag):
            ctx.fail("meaning:point:%s" % tree[0], "point denotes %r, expected %r" % (got, want))
        compare_coefficients(ctx, tree, res, b, "point")
    else:
        if not isinstance(res, Expression):
            ctx.fail("type:E", "expected an Expression, got %r" % type(res))
            return
        got, gm = sem.val_expr(res, val)
        if not close(got, want, mag + gm):
            ctx.fail("meaning:expr:%s" % tree[0], "expression denotes %r, expected %r" % (got, want))
        compare_coefficients(ctx, tree, res, b, "expression")
    if has_interesting(tree):
        ctx.label("interesting")
    ctx.nontrivial(nops >= 3 and has_interesting(tree))


# ----------------------------------------------------------------------------------------------------------------
# operand-kind table
# ----------------------------------------------------------------------------------------------------------------
VALID = set()
for _a in ("P", "Pd"):
    for _b in ("P", "Pd"):
        VALID.update({("+", _a, _b), ("-", _a, _b), ("*", _a, _b)})
    for _s in ("int", "float"):
        VALID.update({("*", _a, _s), ("*", _s, _a), ("/", _a, _s)})
    VALID.add(("neg", _a, "None"))
for _a in ("E", "Ed"):
    for _b in ("E", "Ed", "int", "float"):
        for _o in ("+", "-", "<=", ">=", "==", "<", ">"):
            VALID.add((_o, _a, _b))
            VALID.add((_o, _b, _a))
    for _s in ("int", "float"):
        VALID.update({("*", _a, _s), ("*", _s, _a), ("/", _a, _s)})
    VALID.add(("neg", _a, "None"))
DSL = {"P", "Pd", "E", "Ed"}


def make_operand(kind, side):
    from PEPit import Point, Expression, Function, Constraint, PSDMatrix
    if kind == "P":
        return Point()
    if kind == "Pd":
        return Point() - 2 * Point()
    if kind == "E":
        return Expression()
    if kind == "Ed":
        return Expression() + Point() * Point() + 1
    if kind == "int":
        return 2 if side == 1 else 3
    if kind == "float":
        return 2.0 if side == 1 else 0.5
    if kind == "None":
        return None
    if kind == "str":
        return "2"
    if kind == "list":
        return [2]
    if kind == "dict":
        return {1: 2}
    if kind == "complex":
        return 2j
    if kind == "Function":
        return Function(is_leaf=True)
    if kind == "Constraint":
        return Expression() <= 1
    if kind == "PSDMatrix":
        return PSDMatrix([[Expression()]])
    raise ValueError(kind)


def apply(op, a, b):
    if op == "neg":
        return -a
    if op == "+":
        return a + b
    if op == "-":
        return a - b
    if op == "*":
        return a * b
    if op == "/":
        return a / b
    if op == "**":
        return a ** b
    if op == "<=":
        return a <= b
    if op == ">=":
        return a >= b
    if op == "==":
        return a == b
    if op == "<":
        return a < b
    if op == ">":
        return a > b


def check_kinds(case, ctx):
    from PEPit import PEP, Point, Expression, Constraint
    op, ka, kb = case["op"], case["a"], case["b"]
    PEP()
    if ka not in DSL and kb not in DSL:
        ctx.label("kinds:no-dsl-operand")
        return
    if op == "==" and ka not in ("E", "Ed") and kb not in ("E", "Ed"):
        ctx.label("kinds:python-identity-eq")   # Point has no __eq__: plain Python identity, not a DSL operator
        return
    a = make_operand(ka, 0)
    b = make_operand(kb, 1)
    key = (op, ka, kb)
    valid = key in VALID or (op == "**" and ka in ("P", "Pd") and kb in ("int", "float"))
    with warnings.catch_warnings(record=True):
        warnings.simplefilter("always")
        try:
            if op == "**" and valid:
                b = 2 if kb == "int" else 2.0
            res = apply(op, a, b)
            raised = None
        except Exception as exc:  # noqa
            res = None
            raised = exc
    ctx.nontrivial(True)
    if valid:
        ctx.label("kinds:valid")
        if raised is not None:
            ctx.fail("kinds:valid-raises:%s:%s:%s" % key, "documented combination raised %r" % (raised,))
        elif not isinstance(res, (Point, Expression, Constraint)):
            ctx.fail("kinds:valid-type:%s:%s:%s" % key, "documented combination returned %r" % (type(res),))
    else:
        ctx.label("kinds:invalid")
        if raised is None and res is not NotImplemented:
            ctx.fail("kinds:invalid-accepted:%s:%s:%s" % key,
                     "undocumented operand kinds %s %s %s did not raise but returned %r" % (ka, op, kb, type(res)))


def check_case(case, ctx):
    if case["kind"] == "tree":
        check_tree(case, ctx)
    else:
        check_kinds(case, ctx)
