"""C03 - class constraints never exclude a real member of the class.

Generated: (class, real member of that class with its exact parameters times a slack >= 1, dimension, evaluation
points incl. combinations, stationary / fixed points, repeated evaluations with different admissible
subgradients, adjoint samples, infimal displacement vector, coordinate blocks), executed in lock-step: every leaf
PEPit creates receives the concrete value the real member gives it.  Oracle: every scalar class constraint and
every class LMI (and every partition constraint) PEPit generates holds at that concrete valuation, evaluated
through vf.sem (no solver involved).  Membership of the generated member in the class is by construction and is
spot-checked by a definitional test on random pairs.
"""
import numpy as np
from hypothesis import strategies as st

from vf import prog, sem, members

PROP = "C03"
CASES = {"quick": 12000, "thorough": 1500000}
RULE = ("class x member family (vf/members.py) x seed x dimension 1..4 x slack in {1 (extremal), 1.5} x history of 1-7 "
        "events.  Non-trivial = >= 2 samples and at least one generated inequality whose slack is below 5% of its scale "
        "(nearly active) or an equality / LMI over >= 2 samples; distinct by case JSON.")
TRUSTED = ["vf/members.py (real members with parameters by construction)", "vf/sem.py"]
ASSUMPTIONS = ["generated members are a strict subset of each class; a formula that is too tight only for members the "
               "generators cannot produce is caught by C04's exact comparison with the documented conditions instead"]


@st.composite
def _case(draw):
    cls = draw(st.sampled_from(prog.ALL_CLASSES))
    fam = draw(st.sampled_from(members.FAMILIES[cls]))
    n = draw(st.integers(1, 4))
    npts = draw(st.integers(1, 4))
    ncomb = draw(st.integers(0, 2))
    combos = [[draw(st.integers(0, npts - 1)), draw(st.integers(0, npts - 1)), draw(st.sampled_from([1, -1, 0.5, 2, 0.25]))]
              for _ in range(ncomb)]
    kinds = ["eval", "eval", "eval", "again", "again", "stat", "fixed", "again_stat"]
    if cls == "LinearOperator":
        kinds += ["adjoint", "adjoint"]
    if cls == "NonexpansiveOperator":
        kinds.append("set_v")
    events = [[draw(st.sampled_from(kinds)), draw(st.integers(0, npts + ncomb - 1))] for _ in range(draw(st.integers(1, 7)))]
    return {"cls": cls, "family": fam, "seed": draw(st.integers(0, 10 ** 6)), "n": n, "slack": draw(st.sampled_from([1, 1, 1.5])),
            "npts": npts, "combos": combos, "events": events, "vseed": draw(st.integers(0, 10 ** 6)),
            "special": draw(st.sampled_from(["none", "none", "center", "onaxis"]))}


def strategy(tier):
    return _case()


def fixed_cases(tier):
    out = []
    for cls in prog.ALL_CLASSES:
        for fam in members.FAMILIES[cls]:
            ev = [["eval", 0], ["eval", 1], ["stat", 0], ["again", 0], ["eval", 2], ["fixed", 0], ["again_stat", 0]]
            if cls == "LinearOperator":
                ev += [["adjoint", 0], ["adjoint", 1]]
            if cls == "NonexpansiveOperator":
                ev.insert(0, ["set_v", 0])
            for n in (1, 2, 3):
                out.append({"cls": cls, "family": fam, "seed": 7 + n, "n": n, "slack": 1, "npts": 3, "combos": [[0, 1, 0.5]],
                            "events": ev, "vseed": 3, "special": "center"})
    return out


def definitional_check(cls, member, params, rng, n):
    """independent spot-check that the generated member really belongs to the declared class (random pairs)"""
    P = {k: prog.num(v) for k, v in params.items() if k not in ("Ls", "partition", "d")}
    for _ in range(6):
        x, y = rng.randint(-3, 4, size=n).astype(float), rng.randint(-3, 4, size=n).astype(float)
        if not (member.in_domain(x) and member.in_domain(y)):
            continue
        gx, gy = member.grad(x, rng), member.grad(y, rng)
        fx, fy = member.value(x), member.value(y)
        dx, dg = x - y, gx - gy
        tol = 1e-9 * (1 + abs(fx) + abs(fy) + np.dot(dx, dx) + np.dot(dg, dg) + np.dot(gx, gx))
        if cls in ("ConvexFunction", "ConvexLipschitzFunction", "ConvexQGFunction", "ConvexSupportFunction", "ConvexIndicatorFunction"):
            if fx < fy + gy @ dx - tol:
                return "convexity fails"
        if cls in ("StronglyConvexFunction",) and fx < fy + gy @ dx + P["mu"] / 2 * (dx @ dx) - tol:
            return "strong convexity fails"
        if cls in ("SmoothConvexFunction", "SmoothStronglyConvexFunction", "SmoothConvexLipschitzFunction",
                   "SmoothStronglyConvexQuadraticFunction", "SmoothFunction", "LipschitzOperator", "LipschitzStronglyMonotoneOperator"):
            if np.linalg.norm(dg) > P["L"] * np.linalg.norm(dx) + tol:
                return "gradient / operator is not L-Lipschitz"
        if cls in ("MonotoneOperator", "StronglyMonotoneOperator", "LipschitzStronglyMonotoneOperator", "CocoerciveStronglyMonotoneOperator"):
            if dg @ dx < P.get("mu", 0.0) * (dx @ dx) - tol:
                return "(strong) monotonicity fails"
        if cls in ("CocoerciveOperator", "CocoerciveStronglyMonotoneOperator") and dg @ dx < P["beta"] * (dg @ dg) - tol:
            return "cocoercivity fails"
        if cls == "NegativelyComonotoneOperator" and dg @ dx < -P["rho"] * (dg @ dg) - tol:
            return "negative comonotonicity fails"
        if cls == "NonexpansiveOperator" and np.linalg.norm(dg) > np.linalg.norm(dx) + tol:
            return "nonexpansiveness fails"
        if cls in ("ConvexLipschitzFunction", "SmoothConvexLipschitzFunction") and np.linalg.norm(gx) > P["M"] + tol:
            return "gradient norm exceeds M"
        if cls == "RsiEbFunction":
            xs = member.stationary()
            if gx @ (x - xs) < P["mu"] * ((x - xs) @ (x - xs)) - tol or np.linalg.norm(gx) > P["L"] * np.linalg.norm(x - xs) + tol:
                return "RSI / EB fails"
        if cls == "ConvexQGFunction":
            xs = member.stationary()
            if fx - member.value(xs) > P["L"] / 2 * ((x - xs) @ (x - xs)) + tol:
                return "quadratic upper bound fails"
    return None


def check_case(case, ctx):
    from PEPit import PEP, Point, Expression
    cls = case["cls"]
    n = case["n"]
    member, params = members.build(cls, case["family"], case["seed"], n, case["slack"])
    rng = np.random.RandomState(case["vseed"])
    msg = definitional_check(cls, member, params, np.random.RandomState(case["vseed"] + 1), n)
    if msg is not None:
        from vf.core import HarnessError
        raise HarnessError("generated member is not in its class (%s): %s" % (msg, case))
    val = sem.Valuation()
    with prog.quiet():
        pep = PEP()
        kw = {k: prog.num(v) for k, v in params.items() if k not in ("partition", "Ls", "d")}
        partition = None
        if cls == "BlockSmoothConvexFunction":
            partition = pep.declare_block_partition(d=params["d"])
            kw = {"partition": partition, "L": [float(v) for v in params["Ls"]]}
        f = pep.declare_function(prog.get_class(cls), **kw)

    def give(point, vector):
        if point.get_is_leaf() and not val.has(point):
            val.set(point, np.asarray(vector, dtype=float))

    def give_e(expr, number):
        if expr.get_is_leaf() and not val.has(expr):
            val.set(expr, float(number))

    def pv(point):
        return sem.val_point(point, val, dim=n)

    def fval(x):
        return member.value(x) if member.has_values else 0.0

    # the quadratic class creates its stationary point in the constructor
    for (xs, gs, fs) in f.list_of_stationary_points:
        c = member.stationary()
        give(xs, c)
        give_e(fs, fval(c))

    X = []
    with prog.quiet():
        for k in range(case["npts"]):
            x = Point()
            if hasattr(member, "sample_point"):
                v = member.sample_point(rng)
            elif hasattr(getattr(member, "base", None), "sample_point"):
                v = member.base.sample_point(rng)
            else:
                v = rng.randint(-3, 4, size=n).astype(float)
                st_pt = member.stationary()
                if case["special"] == "center" and k == 0 and st_pt is not None:
                    v = st_pt.copy()               # evaluate exactly at the kink / minimiser
                elif case["special"] == "onaxis" and st_pt is not None:
                    v = st_pt + np.eye(n)[k % n] * float(rng.randint(-2, 3))
            give(x, v)
            X.append(x)
        for i, j, w in case["combos"]:
            X.append((1 - w) * X[i] + w * X[j])

    in_dom = getattr(member, "in_domain", lambda x: True)
    if hasattr(getattr(member, "base", None), "in_domain"):
        in_dom = member.base.in_domain
    n_samples = 0
    stat_pts = []
    with prog.quiet():
        for kind, k in case["events"]:
            x = X[k % len(X)]
            if kind in ("eval", "again"):
                xv = pv(x)
                if not in_dom(xv):
                    ctx.label("skipped:outside-domain")
                    continue
                g, fx = f.oracle(x)
                give(g, member.grad(xv, rng))
                give_e(fx, fval(xv))
            elif kind == "stat":
                c = member.stationary()
                if c is None:
                    ctx.label("skipped:no-stationary-point")
                    continue
                xs, gs, fs = f.stationary_point(return_gradient_and_function_value=True)
                give(xs, c)
                give_e(fs, fval(c))
                stat_pts.append(xs)
            elif kind == "again_stat":
                if not stat_pts:
                    continue
                xs = stat_pts[0]
                g, fx = f.oracle(xs)
                give(g, member.grad(pv(xs), rng))
                give_e(fx, fval(pv(xs)))
            elif kind == "fixed":
                c = member.fixed()
                if c is None or cls in ("ConvexIndicatorFunction", "ConvexSupportFunction") or not in_dom(c):
                    ctx.label("skipped:no-fixed-point")
                    continue
                xf, _, ff = f.fixed_point()
                give(xf, c)
                give_e(ff, fval(c))
            elif kind == "adjoint":
                g = f.T.gradient(x)
                give(g, member.adjoint(pv(x)))
            elif kind == "set_v":
                if f.v is None:
                    f.v = Point()
                    give(f.v, member.v)
        # LMI classes need at least one (adjoint) sample
        if cls in ("LinearOperator", "SymmetricLinearOperator", "SkewSymmetricLinearOperator") and not f.list_of_points:
            g = f.gradient(X[0])
            give(g, member.grad(pv(X[0]), rng))
        if cls == "LinearOperator" and not f.T.list_of_points:
            g = f.T.gradient(X[0])
            give(g, member.adjoint(pv(X[0])))
        f.set_class_constraints()
        # leaves created while the class constraints were generated
        for (xs, gs, fs) in f.list_of_stationary_points:
            if xs.get_is_leaf() and not val.has(xs):
                c = member.stationary()
                give(xs, c)
                give_e(fs, fval(c))
        if partition is not None:
            for p, blocks in partition.blocks_dict.items():
                full = pv(p)
                for kb, b in enumerate(blocks[:-1]):
                    proj = np.zeros(n)
                    idx = member.blocks[kb]
                    proj[idx] = full[idx]
                    give(b, proj)
            partition.add_partition_constraints()
    # any leaf still without a value is a leaf we do not know how to interpret
    n_samples = len(f.list_of_points)
    worst_rel = 0.0
    min_slack = np.inf
    n_eq = 0
    items = [(c, "class") for c in f.list_of_class_constraints]
    if partition is not None:
        items += [(c, "partition") for c in partition.list_of_constraints]
    for c, src in items:
        try:
            v, mag = sem.val_expr(c.expression, val)
        except KeyError:
            ctx.fail("unvalued-leaf:%s" % cls, "a class constraint involves a leaf the real member gives no meaning to")
            return
        name = c.get_name() or "unnamed"
        from vf.checks.c04 import condition_of
        cond = condition_of(name) if src == "class" else "partition"
        if c.equality_or_inequality == "inequality":
            rel = v / (1.0 + mag)
            min_slack = min(min_slack, -rel)
            if rel > 1e-9:
                ctx.fail("member-excluded:%s:%s" % (cls, cond),
                         "%s (%s, %s): the real member violates the generated inequality %s by %.3e (scale %.2e)"
                         % (cls, case["family"], params, name, v, mag))
        else:
            n_eq += 1
            if abs(v) / (1.0 + mag) > 1e-9:
                ctx.fail("member-excluded:%s:%s" % (cls, cond),
                         "%s (%s, %s): the real member violates the generated equality %s by %.3e" % (cls, case["family"], params, name, v))
    for m in f.list_of_class_psd:
        if m.shape[0] == 0:
            continue
        V = np.zeros(m.shape)
        mag = 0.0
        for a in range(m.shape[0]):
            for b in range(m.shape[1]):
                V[a, b], g_ = sem.val_expr(m.matrix_of_expressions[a, b], val)
                mag = max(mag, g_)
        lam = float(np.min(np.linalg.eigvalsh((V + V.T) / 2)))
        asym = float(np.max(np.abs(V - V.T)))
        min_slack = min(min_slack, lam / (1.0 + mag))
        if lam < -1e-9 * (1 + mag) or asym > 1e-9 * (1 + mag):
            ctx.fail("member-excluded:%s:lmi" % cls, "%s (%s, %s): the class LMI has min eigenvalue %.3e / asymmetry %.3e on "
                     "the real member's samples" % (cls, case["family"], params, lam, asym))
    ctx.label("cls:" + cls)
    ctx.label("family:%s:%s" % (cls, case["family"]))
    ctx.observe("min_relative_slack:" + cls, -min_slack if min_slack != np.inf else -1.0)
    near = min_slack != np.inf and min_slack < 0.05
    if near:
        ctx.label("nearly-active")
    ctx.nontrivial(n_samples >= 2 and (near or n_eq > 0 or len(f.list_of_class_psd) > 0))
