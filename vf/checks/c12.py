"""C12 - a model's result does not depend on what happened earlier in the process.

Generated: a program B (method-like model or instruction soup, with solve options) and a history A_1..A_k of
other programs, each ending in {solve, abandon half-built, raise mid-construction, unbounded solve returning
None}, with random verbosity, optionally touching the module-level null_point / null_expression.
Oracle: child 1 (fresh fork of a parent that never constructed a PEPit object) runs B; child 2 (another fresh
fork) runs A_1..A_k and then B.  The canonical dump taken at B's solve must be identical byte for byte:
ordered list of everything sent (kind, sense, name, per-object counter, dense translation bytes), all class
counters, the cvxpy problem data (A, b, c, cone dimensions), the returned value and the values of every pool
object.  A third child runs B alone with another verbosity.
"""
import hashlib

import numpy as np
from hypothesis import strategies as st

from vf import gen, prog, forked
from vf.checks import c05

PROP = "C12"
CASES = {"quick": 560, "thorough": 16000}
RULE = ("B = generated model (vf/gen.py) or legal instruction soup (vf/checks/c05.soup) with solve options; history of "
        "0-4 other generated programs with endings {solve, abandon, raise, unbounded solve}; dumps compared between a "
        "fresh child and a child that first ran the history (and a child with another verbosity).  Non-trivial = "
        "history of length >= 1 sharing a feature with B (same class, partition, LMI, composite); distinct by case JSON.")
TRUSTED = ["os.fork gives each child the state of a parent that never built a PEPit object", "sha256 of numpy buffers"]
ASSUMPTIONS = ["CLARABEL and cvxpy canonicalisation are deterministic for identical input (measured: identical hashes over "
               "repeated forks)"]


@st.composite
def _program(draw, solvable):
    if solvable or draw(st.booleans()):
        m = draw(gen.model(max_steps=2, allow_nonsym_lmi=True))
        return {"instrs": m["instrs"], "tags": m["meta"]["tags"] + ["cls:" + m["meta"]["cls"]]}
    instrs = draw(c05.soup(max_len=14))
    tags = sorted(set(["cls:" + i[1] for i in instrs if i[0] == "func"] + [i[0] for i in instrs if i[0] in ("partition", "lmi", "compose")]))
    return {"instrs": instrs, "tags": tags}


@st.composite
def _case(draw):
    B = draw(_program(True))
    optsB = draw(gen.solve_options(solvers=("CLARABEL",), allow_drh=True))
    if draw(st.integers(0, 3)) == 0:
        optsB["solver"] = None          # B relies on the default solver: an explicit choice made by an earlier solve must not stick
    k = draw(st.integers(0, 4))
    hist = []
    for _ in range(k):
        A = draw(_program(False))
        A["ending"] = draw(st.sampled_from(["solve", "solve", "abandon", "raise", "unbounded", "stray"]))
        A["opts"] = draw(gen.solve_options(solvers=("CLARABEL", "SCS"), allow_drh=True))
        A["opts"]["verbose"] = draw(st.sampled_from([0, 1, 2]))
        if draw(st.integers(0, 2)) == 0:
            # solver-specific keyword arguments given to an EARLIER solve (they must not reach B's solve)
            A["opts"]["extra"] = ({"max_iter": draw(st.sampled_from([3, 8, 50]))} if A["opts"]["solver"] == "CLARABEL"
                                  else {"max_iters": draw(st.sampled_from([20, 200])), "eps": draw(st.sampled_from([1e-2, 1e-6]))})
        A["null"] = draw(st.booleans())
        hist.append(A)
    if draw(st.integers(0, 3)) == 0:
        # objects created before any problem exists in the process
        hist.insert(0, {"instrs": [], "tags": [], "ending": "stray", "opts": {}, "null": False})
    return {"B": B, "optsB": optsB, "history": hist, "other_verbose": draw(st.sampled_from([0, 1, 2]))}


def strategy(tier):
    return _case()


def fixed_cases(tier):
    small = [["func", "SmoothConvexFunction", {"L": 1}, None, False], ["init_point", None], ["stat", 0, None],
             ["gd", 0, 0, 1.0], ["expr", "sqdist", 0, 1], ["cons", "init", 2, "<=", 1, None], ["expr", "fdiff", 1, 0],
             ["metric", 3, None]]
    bigger = [["partition", 2], ["func", "SmoothStronglyConvexFunction", {"mu": 0.1, "L": 1}, None, False],
              ["init_point", None], ["stat", 0, None], ["gd", 0, 0, 1.0], ["gd", 0, 3, 1.0], ["block", 0, 0, 1],
              ["expr", "sqdist", 0, 1], ["cons", "init", 3, "<=", 1, None], ["expr", "sqdist", 5, 1], ["metric", 4, None],
              ["lmi", "pep", [[["e", 3], ["n", 0]], [["n", 0], ["e", 4]]], False, None]]
    o = {"wrapper": "cvxpy", "solver": "CLARABEL", "verbose": 0, "ret": "dual"}
    return [{"B": {"instrs": small, "tags": []}, "optsB": o, "other_verbose": 2,
             "history": [{"instrs": bigger, "tags": [], "ending": "solve", "opts": dict(o, verbose=1), "null": True},
                         {"instrs": bigger, "tags": [], "ending": "raise", "opts": o, "null": False},
                         {"instrs": bigger, "tags": [], "ending": "abandon", "opts": o, "null": False}]}]


# ----------------------------------------------------------------------------------------------------------------
def sha(*arrays):
    h = hashlib.sha256()
    for a in arrays:
        a = np.ascontiguousarray(np.asarray(a, dtype=float))
        h.update(str(a.shape).encode())
        h.update(a.tobytes())
    return h.hexdigest()[:20]


def run_history_item(A):
    from PEPit import null_point, null_expression
    try:
        if A["ending"] == "stray":
            # objects created outside any problem (documented constructors), possibly before the first PEP() of the process
            from PEPit import Point, Expression, BlockPartition
            from PEPit.functions import SmoothConvexFunction
            with prog.quiet():
                p1, p2 = Point(), Point()
                e1 = Expression()
                bp = BlockPartition(d=2)
                bp.get_block(p1 + p2, 0)
                fn = SmoothConvexFunction(L=1.0)
                fn.gradient(p1)
            return
        env = prog.run_program(A["instrs"])
        ending = A["ending"]
        if ending == "abandon":
            return
        if ending == "raise":
            with prog.quiet():
                try:
                    env.P[0] + 1            # AssertionError in the middle of a construction
                except Exception:           # noqa
                    pass
                try:
                    env.pep.solve(verbose=0, solver="CLARABEL", return_primal_or_dual="nonsense")
                except Exception:           # noqa
                    pass
            return
        instrs = A["instrs"]
        if ending == "unbounded":
            env = prog.run_program([i for i in instrs if not (i[0] == "cons" and i[1] == "init")])
        with prog.quiet():
            try:
                env.pep.solve(**prog.decode_solve_options(A["opts"]))
            except Exception:               # noqa
                pass
            if A.get("null"):
                for obj in (null_point, null_expression):
                    try:
                        obj.eval()
                    except Exception:       # noqa
                        pass
                for p in env.P[:3]:
                    try:
                        p.eval()
                    except Exception:       # noqa
                        pass
    except Exception:                       # noqa
        pass                                # a history item may fail in any way; only B matters


def dump_B(B, opts, history, verbose_override=None):
    """Runs in a forked child."""
    from vf import record
    from PEPit import Point, Expression, Function, Constraint, PSDMatrix, BlockPartition, PEP, null_point, null_expression
    from PEPit.tools.expressions_to_matrices import expression_to_matrices
    for A in history:
        run_history_item(A)
    record.install(build_only=False)
    record.reset_log()
    env = prog.run_program(B["instrs"])
    o = dict(opts)
    if verbose_override is not None:
        o["verbose"] = verbose_override
    counters_before = [Point.counter, Expression.counter, Function.counter, Constraint.counter, PSDMatrix.counter,
                       BlockPartition.counter, PEP.counter, len(Point.list_of_leaf_points),
                       len(Expression.list_of_leaf_expressions), len(Function.list_of_functions),
                       len(BlockPartition.list_of_partitions)]
    exc = None
    # what the numerical solver is finally called with is part of the solver input
    import cvxpy
    solver_calls = []
    orig_solve = cvxpy.Problem.solve

    def spy(self_, *a, **kw):
        solver_calls.append(["cvxpy.Problem.solve", [repr(x) for x in a], sorted((k_, repr(v_)) for k_, v_ in kw.items() if k_ != "verbose")])
        return orig_solve(self_, *a, **kw)
    cvxpy.Problem.solve = spy
    with prog.quiet():
        try:
            res = env.pep.solve(**prog.decode_solve_options(o))
        except Exception as e:  # noqa
            res = None
            exc = "%s" % type(e).__name__
        finally:
            cvxpy.Problem.solve = orig_solve
    w = env.pep.wrapper
    events = [["solver-call", c_] for c_ in solver_calls]
    for ev in getattr(w, "events", []):
        if ev[0] == "c":
            c = ev[1]
            Gw, Fw, cst = expression_to_matrices(c.expression)
            events.append(["c", c.equality_or_inequality, c.get_name(), c.counter, sha(Gw, Fw, [cst])])
        elif ev[0] == "lmi":
            m = ev[1]
            hs = []
            for a in range(m.shape[0]):
                for b in range(m.shape[1]):
                    Gw, Fw, cst = expression_to_matrices(m.matrix_of_expressions[a, b])
                    hs.append(sha(Gw, Fw, [cst]))
            events.append(["lmi", list(m.shape), m.get_name(), m.counter, hs])
        elif ev[0] in ("main", "problem", "solve", "prepare_heuristic"):
            events.append([ev[0]])
    counters_after = [Point.counter, Expression.counter, Function.counter, Constraint.counter, PSDMatrix.counter,
                      BlockPartition.counter, PEP.counter, len(Point.list_of_leaf_points),
                      len(Expression.list_of_leaf_expressions), len(Function.list_of_functions),
                      len(BlockPartition.list_of_partitions)]
    names = [[f.get_name(), f.counter, type(f).__name__] for f in Function.list_of_functions]
    prob_hash = None
    try:
        # the first (main) problem is what proves the bound; hash the data of the problem currently held
        data, _chain, _inv = w.prob.get_problem_data("CLARABEL")
        A = data["A"]
        P = data.get("P")
        prob_hash = sha(A.toarray() if hasattr(A, "toarray") else A, data["b"], data["c"]) + ":" + str(data["dims"])
    except Exception as e:  # noqa
        prob_hash = "unavailable:%s" % type(e).__name__
    evals = []
    if res is not None:
        for obj in env.P + env.E + env.C + env.M + [null_point, null_expression]:
            try:
                v = np.asarray(obj.eval(), dtype=float)
                evals.append([list(v.shape), sha(v)])
            except Exception as e:  # noqa
                evals.append(["exc", type(e).__name__])
        for c in env.pep._list_of_constraints_sent_to_wrapper:
            evals.append(["dual", sha([c.eval_dual()])])
    return {"result": None if res is None else float(res).hex(), "exc": exc, "events": events,
            "counters_before": counters_before, "counters_after": counters_after, "functions": names,
            "problem": prob_hash, "evals": evals, "status": getattr(getattr(w, "prob", None), "status", None)}


def first_difference(d1, d2):
    for k in ("counters_before", "functions", "events", "counters_after", "problem", "status", "exc", "result", "evals"):
        if d1.get(k) != d2.get(k):
            a, b = d1.get(k), d2.get(k)
            if isinstance(a, list) and isinstance(b, list):
                for i, (x, y) in enumerate(zip(a, b)):
                    if x != y:
                        return k, "item %d: %r vs %r" % (i, x, y)
                return k, "lengths %d vs %d" % (len(a), len(b))
            return k, "%r vs %r" % (a, b)
    return None


WARM = {"done": False}


def warmup():
    """Pay cvxpy's one-off start-up cost in the parent worker with a PEPit-free problem, so that children do not."""
    if WARM["done"]:
        return
    import cvxpy as cp
    with prog.quiet():
        for solver in ("CLARABEL", "SCS"):
            X = cp.Variable((2, 2), symmetric=True)
            t = cp.Variable(2)
            cp.Problem(cp.Maximize(t[0]), [X >> 0, cp.trace(X) <= 1, t[0] <= X[0, 1], t[1] == 0]).solve(solver=solver)
    WARM["done"] = True


def check_case(case, ctx):
    warmup()
    B, opts, hist = case["B"], case["optsB"], case["history"]
    fresh = forked.run_in_child(dump_B, B, opts, [])
    after = forked.run_in_child(dump_B, B, opts, hist)
    if "error" in fresh or "error" in after:
        from vf.core import HarnessError
        raise HarnessError("child failed: %s" % (fresh.get("error") or after.get("error")))
    d1, d2 = fresh["ok"], after["ok"]
    ctx.label("history:%d" % len(hist))
    for A in hist:
        ctx.label("ending:" + A["ending"])
    ctx.label("B:finite" if d1["result"] is not None else "B:none-or-exc")
    diff = first_difference(d1, d2)
    if diff is not None:
        ctx.fail("history-dependence:%s" % diff[0],
                 "program B gives a different %s after a history of %d other program(s) than in a fresh interpreter: %s"
                 % (diff[0], len(hist), diff[1]))
    if case.get("other_verbose") is not None and case["other_verbose"] != opts.get("verbose", 0):
        other = forked.run_in_child(dump_B, B, opts, [], case["other_verbose"])
        if "error" in other:
            from vf.core import HarnessError
            raise HarnessError("child failed: %s" % other["error"])
        diff = first_difference(d1, other["ok"])
        if diff is not None:
            ctx.fail("verbosity-dependence:%s" % diff[0],
                     "program B gives a different %s with verbose=%r than with verbose=%r: %s"
                     % (diff[0], case["other_verbose"], opts.get("verbose", 0), diff[1]))
        ctx.label("verbosity-compared")
    shared = set(B.get("tags", [])) & set(t for A in hist for t in A.get("tags", []))
    ctx.nontrivial(len(hist) >= 1 and (len(shared) > 0 or any(A["ending"] != "abandon" for A in hist)))
    if shared:
        ctx.label("shared-feature")
