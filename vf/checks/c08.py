"""C08 - primitive steps encode exactly their defining optimality conditions.

Symbolic side (stream 'sym'): each of the 8 steps x every option x leaf / combination start x leaf / composite
function is called on a small generated state; the state is snapshotted before and after.  A reference written from
the step's docstring (not from its code) states the fresh leaves, the relation tying the returned points, the samples
recorded on which function and the side constraints, as denotations; PEPit's delta must equal it - same samples on the
same function, same constraints up to positive scaling, nothing else.
Concrete side (stream 'real'): the real operation is run on a real function with a computable step (quadratics, weighted
l1, box indicators, quadratic mirror maps): closed-form prox / projection, perturbed gradient, exact search over a span,
explicit epsilon-subgradient, argmin of a linear form over a box, Bregman steps.  The leaves PEPit created receive these
concrete values and everything the step recorded (samples through the class constraints of the function, side
constraints) must hold.
"""
import itertools

import numpy as np
from hypothesis import strategies as st

from vf import prog, sem, members
from vf.refconds import RP, inner, sq, lin, const

PROP = "C08"
CASES = {"quick": 6000, "thorough": 1500000}
RULE = ("sym: step in the 8 primitive steps x options (absolute/relative, PD_gapI/II/III) x step size / accuracy x start point "
        "(leaf or combination) x function (leaf or weighted sum of two leaves); real: the same steps on real quadratics / "
        "l1 / box indicators / quadratic mirror maps in dimension 1-4.  Non-trivial = non-leaf start point, non-default "
        "option or composite function (sym) or a real run (real); distinct by case JSON.")
TRUSTED = ["reference deltas in vf/checks/c08.py (from the step docstrings)", "vf/sem.py", "vf/members.py"]
ASSUMPTIONS = ["for a composite function only the samples recorded on the composite itself are compared with the "
               "reference; their distribution over the terms is property C07"]

STEPS = ["prox", "inexact_grad", "linesearch", "inexact_prox", "eps_subgrad", "linopt", "bregman_grad", "bregman_prox"]
gam = st.sampled_from([1, 0.5, 2, 0.1, 1.5, 3.0, 0.25])


@st.composite
def _sym(draw):
    step = draw(st.sampled_from(STEPS))
    opt = None
    if step == "inexact_grad":
        opt = draw(st.sampled_from(["absolute", "relative"]))
    if step == "inexact_prox":
        opt = draw(st.sampled_from(["PD_gapI", "PD_gapII", "PD_gapIII"]))
    return {"kind": "sym", "step": step, "opt": opt, "gamma": draw(gam), "eps": draw(st.sampled_from([0.1, 0.5, 1, 2, 0.3, 1.5])),
            "start": draw(st.sampled_from(["leaf", "leaf", "comb", "comb_prev"])), "composite": draw(st.booleans()),
            "w": [draw(st.sampled_from([1, 2, 0.5, 3])), draw(st.sampled_from([1, 2, 0.5, -1]))],
            "ndir": draw(st.integers(0, 3)), "pre_eval": draw(st.booleans()), "named": draw(st.booleans()),
            # Bregman steps: the mirror map may be a non-differentiable convex function (a new subgradient at each query)
            "mirror_nonsmooth": draw(st.booleans())}


@st.composite
def _real(draw):
    step = draw(st.sampled_from(STEPS))
    opt = None
    if step == "inexact_grad":
        opt = draw(st.sampled_from(["absolute", "relative"]))
    if step == "inexact_prox":
        opt = draw(st.sampled_from(["PD_gapI", "PD_gapII", "PD_gapIII"]))
    return {"kind": "real", "step": step, "opt": opt, "gamma": draw(gam), "eps": draw(st.sampled_from([0.1, 0.5, 1, 2, 0.3, 1.5])),
            "n": draw(st.integers(1, 4)), "seed": draw(st.integers(0, 10 ** 6)), "family": draw(st.sampled_from(["quadratic", "l1", "box"])),
            "ndir": draw(st.integers(0, 2)), "tight": draw(st.booleans())}


def strategy(tier):
    return st.one_of(_sym(), _real())


def fixed_cases(tier):
    out = []
    for step in STEPS:
        opts = {"inexact_grad": ["absolute", "relative"], "inexact_prox": ["PD_gapI", "PD_gapII", "PD_gapIII"]}.get(step, [None])
        for opt in opts:
            for g in (1, 2, 0.5):
                out.append({"kind": "sym", "step": step, "opt": opt, "gamma": g, "eps": 0.5, "start": "comb", "composite": False,
                            "w": [1, 1], "ndir": 2, "pre_eval": True, "named": True})
                out.append({"kind": "real", "step": step, "opt": opt, "gamma": g, "eps": 0.5, "n": 2, "seed": 5, "family": "quadratic",
                            "ndir": 1, "tight": True})
    return out


# ----------------------------------------------------------------------------------------------------------------
def snap(functions):
    return {id(f): (len(f.list_of_points), len(f.list_of_constraints), len(f.list_of_psd)) for f in functions}


def call_step(case, f, x0, aux):
    import PEPit.primitive_steps as PS
    step, g_, eps = case["step"], case["gamma"], case["eps"]
    if step == "prox":
        return PS.proximal_step(x0, f, g_)
    if step == "inexact_grad":
        return PS.inexact_gradient_step(x0, f, gamma=g_, epsilon=eps, notion=case["opt"])
    if step == "linesearch":
        given = list(aux["dirs"])
        ret = PS.exact_linesearch_step(x0, f, aux["dirs"])
        # the caller's list is an input: a step that edits it makes every later call that reuses the list record
        # orthogonality to something the caller never asked for (stronger than documented)
        aux["dirs_altered"] = len(aux["dirs"]) != len(given) or any(a is not b for a, b in zip(aux["dirs"], given))
        aux["dirs"] = given
        return ret
    if step == "inexact_prox":
        return PS.inexact_proximal_step(x0, f, g_, opt=case["opt"])
    if step == "eps_subgrad":
        return PS.epsilon_subgradient_step(x0, f, g_)
    if step == "linopt":
        return PS.linear_optimization_step(x0, f)
    if step == "bregman_grad":
        return PS.bregman_gradient_step(aux["gx0"], aux["sx0"], aux["h"], g_)
    if step == "bregman_prox":
        return PS.bregman_proximal_step(aux["sx0"], aux["h"], f, g_)
    raise ValueError(step)


def is_fresh_leaf(obj, before_ids):
    return obj.get_is_leaf() and id(obj) not in before_ids


def peq(a, b):
    """two RP denote the same point"""
    keys = set(a.c) | set(b.c)
    return all(abs(a.c.get(k, 0.0) - b.c.get(k, 0.0)) <= 1e-9 * (1 + abs(a.c.get(k, 0.0))) for k in keys)


def feq(a, b):
    return sem.fun_diff(a, b) <= 1e-9 * (1 + max(sem.fun_scale(a), sem.fun_scale(b)))


def expected_delta(case, ret, f, x0, aux):
    """Reference (from the docstrings).  Returns dict(relations=[(name, bool)], samples={function: [(x,g,f) RP/fun]},
    constraints=[(sense, functional)] on f, fresh=[objects that must be fresh leaves])"""
    step, gamma, eps = case["step"], case["gamma"], case["eps"]
    R = RP.of
    F = sem.functional
    rel, samples, cons, fresh = [], {}, [], []
    X0 = R(x0)
    if step == "prox":
        x, gx, fx = ret
        rel.append(("x = x0 - gamma*gx", peq(R(x), X0 - gamma * R(gx))))
        samples[id(f)] = [(R(x), R(gx), F(fx))]
        fresh += [gx, fx]
    elif step == "inexact_grad":
        x, dx0, fx0 = ret
        gx0 = aux["recorded_gradient_at_x0"]()
        rel.append(("x = x0 - gamma*d", peq(R(x), X0 - gamma * R(dx0))))
        rel.append(("returned value is f(x0)", gx0 is not None and feq(F(fx0), F(gx0[1]))))
        if gx0 is not None:
            G = R(gx0[0])
            if case["opt"] == "absolute":
                cons.append(("ineq", lin((1.0, sq(G - R(dx0))), (1.0, const(-eps ** 2)))))
            else:
                cons.append(("ineq", lin((1.0, sq(G - R(dx0))), (-eps ** 2, sq(G)))))
        samples[id(f)] = "oracle-at-x0"
        fresh += [dx0]
    elif step == "linesearch":
        x, gx, fx = ret
        fresh += [x]
        samples[id(f)] = [(R(x), R(gx), F(fx))]
        cons.append(("eq", inner(R(x) - X0, R(gx))))
        for d in aux["dirs"]:
            cons.append(("eq", inner(R(d), R(gx))))
    elif step == "inexact_prox":
        x, gx, fx, w, v, fw, eps_var = ret
        fresh += [eps_var, fx]
        if case["opt"] == "PD_gapI":
            fresh += [v, w, fw, x, gx]
            samples[id(f)] = [(R(w), R(v), F(fw)), (R(x), R(gx), F(fx))]
            e = R(x) - X0 + gamma * R(v)
            eps_sub = lin((1.0, F(fx)), (-1.0, F(fw)), (-1.0, inner(R(v), R(x) - R(w))))
            cons.append(("ineq", lin((0.5, sq(e)), (gamma, eps_sub), (-1.0, F(eps_var)))))
        elif case["opt"] == "PD_gapII":
            fresh += [gx]
            e = R(x) - X0 + gamma * R(gx)
            rel.append(("(w, v, fw) = (x, gx, fx)", w is x and v is gx and fw is fx))
            samples[id(f)] = [(R(x), R(gx), F(fx))]
            cons.append(("ineq", lin((0.5, sq(e)), (-1.0, F(eps_var)))))
            # e itself must be a fresh direction: x - x0 + gamma gx is a single fresh leaf
            rel.append(("error term is a fresh leaf", len([k for k, c in e.c.items() if abs(c) > 1e-12]) == 1))
        else:
            fresh += [x, gx, w, fw]
            rel.append(("v = (x0 - x)/gamma", peq(R(v), (X0 - R(x)) * (1.0 / gamma))))
            samples[id(f)] = [(R(x), R(gx), F(fx)), (R(w), R(v), F(fw))]
            eps_sub = lin((1.0, F(fx)), (-1.0, F(fw)), (-1.0, inner(R(v), R(x) - R(w))))
            cons.append(("ineq", lin((gamma, eps_sub), (-1.0, F(eps_var)))))
    elif step == "eps_subgrad":
        x, g0, f0, epsilon = ret
        fresh += [g0, epsilon]
        rel.append(("x = x0 - gamma*g0", peq(R(x), X0 - gamma * R(g0))))
        rec = aux["recorded_gradient_at_x0"]()
        rel.append(("returned value is f(x0)", rec is not None and feq(F(f0), F(rec[1]))))
        # exists a fresh sample (y, g0, fy) on f with  f0 + <g0, y> - fy - <g0, x0> <= epsilon
        new = aux["new_samples"](f)
        ys = [(yy, gg, ff) for (yy, gg, ff) in new if gg is g0]
        rel.append(("a fresh sample (y, g0, fy) is recorded", len(ys) == 1 and ys[0][0].get_is_leaf() and ys[0][2].get_is_leaf()))
        if ys:
            y, _g, fy = ys[0]
            samples[id(f)] = "value-at-x0-plus:"
            aux["eps_sample"] = (R(y), R(g0), F(fy))
            cons.append(("ineq", lin((1.0, F(f0)), (1.0, inner(R(g0), R(y))), (-1.0, F(fy)), (-1.0, inner(R(g0), X0)), (-1.0, F(epsilon)))))
    elif step == "linopt":
        x, gx, fx = ret
        fresh += [x, fx]
        rel.append(("gx = -dir", peq(R(gx), X0 * (-1.0))))
        samples[id(f)] = [(R(x), R(gx), F(fx))]
    elif step == "bregman_grad":
        x, sx, hx = ret
        fresh += [x, hx]
        rel.append(("sx = sx0 - gamma*gx0", peq(R(sx), R(aux["sx0"]) - gamma * R(aux["gx0"]))))
        samples[id(aux["h"])] = [(R(x), R(sx), F(hx))]
    elif step == "bregman_prox":
        x, sx, hx, gx, fx = ret
        fresh += [x, gx, fx, hx]
        rel.append(("sx = sx0 - gamma*gx", peq(R(sx), R(aux["sx0"]) - gamma * R(gx))))
        samples[id(f)] = [(R(x), R(gx), F(fx))]
        samples[id(aux["h"])] = [(R(x), R(sx), F(hx))]
    return rel, samples, cons, fresh


def check_sym(case, ctx):
    from PEPit import PEP, Point, Expression
    from PEPit.functions import ConvexFunction, SmoothStronglyConvexFunction, ConvexIndicatorFunction
    step = case["step"]
    with prog.quiet():
        pep = PEP()
        f1 = pep.declare_function(ConvexFunction)
        f2 = pep.declare_function(SmoothStronglyConvexFunction, mu=0.1, L=1.0)
        h = (pep.declare_function(ConvexFunction) if case.get("mirror_nonsmooth")
             else pep.declare_function(SmoothStronglyConvexFunction, mu=0.5, L=2.0))
        ind = pep.declare_function(ConvexIndicatorFunction, D=1.0)
        if case.get("named"):
            f1.set_name("f1")
        leafs = [f1, f2, h, ind]
        f = f1
        if case["composite"] and step != "linopt":
            f = case["w"][0] * f1 + case["w"][1] * f2
        if step == "linopt":
            f = ind
        allf = leafs + ([f] if f not in leafs else [])
        a, b = pep.set_initial_point(), pep.set_initial_point()
        if case.get("named"):
            a.set_name("a")
        prev = None
        if case["start"] == "comb_prev" or case["pre_eval"]:
            prev, _ = f2.oracle(a)
        x0 = {"leaf": a, "comb": a - 0.5 * b, "comb_prev": (a - 0.3 * prev) if prev is not None else a}[case["start"]]
        aux = {"h": h}
        aux["dirs"] = [[a, b, a - b][k % 3] if k else (prev if prev is not None else b) for k in range(case["ndir"])]
        if step in ("bregman_grad", "bregman_prox"):
            aux["sx0"] = h.gradient(x0)
            aux["gx0"] = f.gradient(x0)
        if case["pre_eval"] and step in ("inexact_grad", "eps_subgrad"):
            f.oracle(x0)
    before = snap(allf)
    before_pts = {id(fn): list(fn.list_of_points) for fn in allf}
    before_leaves = set(id(p) for p in Point.list_of_leaf_points) | set(id(e) for e in Expression.list_of_leaf_expressions)
    n_pep_cons = len(pep.list_of_constraints)

    def recorded_gradient_at_x0():
        # the most recent sample at x0 (a non-differentiable function returns a new subgradient at each call)
        for (xx, gg, ff) in reversed(f.list_of_points):
            if peq(RP.of(xx), RP.of(x0)):
                return gg, ff
        return None

    def new_samples(fn):
        return fn.list_of_points[len(before_pts[id(fn)]):]

    aux["recorded_gradient_at_x0"] = recorded_gradient_at_x0
    aux["new_samples"] = new_samples
    with prog.quiet():
        ret = call_step(case, f, x0, aux)
    if aux.get("dirs_altered"):
        ctx.fail("linesearch:direction-list-altered", "exact_linesearch_step changed the list of directions it was given "
                 "(%d direction(s) passed): a later call reusing the list records more orthogonality than documented" % case["ndir"])
    rel, samples, cons, fresh = expected_delta(case, ret, f, x0, aux)
    tag = "%s%s" % (step, (":" + case["opt"]) if case["opt"] else "")
    for name, ok in rel:
        if not ok:
            ctx.fail("relation:%s:%s" % (tag, name), "%s: the returned objects do not satisfy '%s'" % (tag, name))
    for obj in fresh:
        if not is_fresh_leaf(obj, before_leaves):
            ctx.fail("not-a-fresh-leaf:%s" % tag, "%s: an object that must be a fresh unknown is not a new leaf" % tag)
    # samples: exactly the expected new samples on each function (terms of a composite are C07's business)
    terms = set(id(q) for q in f.decomposition_dict) if not f.get_is_leaf() else set()
    for fn in allf:
        new = new_samples(fn)
        exp = samples.get(id(fn), [])
        if id(fn) in terms and fn is not f:
            continue
        if exp == "oracle-at-x0" or (isinstance(exp, str) and exp.startswith("value-at-x0")):
            extra = [t for t in new if not peq(RP.of(t[0]), RP.of(x0))]
            if isinstance(exp, str) and exp.startswith("value-at-x0"):
                es = aux.get("eps_sample")
                extra = [t for t in extra if not (es and peq(RP.of(t[0]), es[0]) and peq(RP.of(t[1]), es[1]))]
            if extra:
                ctx.fail("unexpected-sample:%s" % tag, "%s records a sample that its definition does not mention" % tag)
            if recorded_gradient_at_x0() is None:
                ctx.fail("missing-sample:%s" % tag, "%s: f is not evaluated at x0" % tag)
            continue
        if len(new) != len(exp):
            ctx.fail(("missing-sample:%s" if len(new) < len(exp) else "unexpected-sample:%s") % tag,
                     "%s records %d new sample(s) on a function, its definition says %d" % (tag, len(new), len(exp)))
            continue
        used = [False] * len(new)
        for (ex, eg, ef) in exp:
            hit = False
            for k, (xx, gg, ff) in enumerate(new):
                if not used[k] and peq(RP.of(xx), ex) and peq(RP.of(gg), eg) and feq(sem.functional(ff), ef):
                    used[k] = True
                    hit = True
                    break
            if not hit:
                ctx.fail("wrong-sample:%s" % tag, "%s: a recorded (point, gradient, value) is not the one its definition states" % tag)
    # constraints: exactly the expected ones, on f, up to positive scaling
    if len(pep.list_of_constraints) != n_pep_cons:
        ctx.fail("constraint-on-pep:%s" % tag, "%s adds a constraint to the PEP instead of the function" % tag)
    for fn in allf:
        newc = fn.list_of_constraints[before[id(fn)][1]:]
        if fn is not f:
            if newc:
                ctx.fail("constraint-on-wrong-function:%s" % tag, "%s adds a side constraint to another function" % tag)
            continue
        got = [(("eq" if c.equality_or_inequality == "equality" else "ineq"), sem.functional(c.expression)) for c in newc]
        used = [False] * len(got)
        for sense, fun in cons:
            hit = False
            for k, (s2, f2_) in enumerate(got):
                if not used[k] and s2 == sense and sem.fun_parallel(f2_, fun, positive=(sense == "ineq")):
                    used[k] = True
                    hit = True
                    break
            if not hit and not sem.fun_is_trivial(fun, 1e-14):
                ctx.fail("side-constraint-differs:%s" % tag, "%s: a documented side condition is missing or altered "
                         "(weaker / stronger / other sense)" % tag)
        for k, u in enumerate(used):
            if not u and not sem.fun_is_trivial(got[k][1], 1e-14):
                ctx.fail("undocumented-side-constraint:%s" % tag, "%s adds a side constraint its definition does not state" % tag)
        if len(fn.list_of_psd) != before[id(fn)][2]:
            ctx.fail("undocumented-lmi:%s" % tag, "%s adds an LMI" % tag)
    ctx.label("sym:" + tag)
    ctx.nontrivial(case["start"] != "leaf" or case["opt"] not in (None, "absolute", "PD_gapII") or case["composite"])


# ----------------------------------------------------------------------------------------------------------------
# concrete side
# ----------------------------------------------------------------------------------------------------------------
def check_real(case, ctx):
    from PEPit import PEP, Point, Expression
    from PEPit.functions import ConvexFunction, SmoothStronglyConvexFunction, ConvexIndicatorFunction
    step, gamma, eps, n = case["step"], float(case["gamma"]), float(case["eps"]), case["n"]
    rng = np.random.RandomState(case["seed"])
    fam = case["family"]
    if step == "linopt":
        fam = "box"
    if step in ("linesearch", "bregman_grad", "bregman_prox", "inexact_grad") and fam != "quadratic":
        fam = "quadratic"
    if fam == "box" and step not in ("prox", "linopt"):
        fam = "l1" if step in ("inexact_prox", "eps_subgrad") else "quadratic"
    val = sem.Valuation()
    with prog.quiet():
        pep = PEP()
        if fam == "quadratic":
            mu, L = 0.5, 0.5 + float(rng.randint(1, 6)) / 2
            mem = members.Quadratic(rng, n, ([mu, L] + [rng.uniform(mu, L) for _ in range(n)])[:n])
            f = pep.declare_function(SmoothStronglyConvexFunction, mu=mu, L=L)
        elif fam == "l1":
            mem = members.WeightedL1(rng, n)
            f = pep.declare_function(ConvexFunction)
        else:
            mem = members.BoxIndicator(rng, n)
            f = pep.declare_function(ConvexIndicatorFunction, D=max(mem.D, 1e-6))
        hm = members.Quadratic(rng, n, [1.0 + float(rng.randint(0, 4)) / 2 for _ in range(n)])
        hm.c = np.zeros(n)
        hm.d = 0.0
        h = pep.declare_function(SmoothStronglyConvexFunction, mu=1.0, L=3.0)
        x0 = pep.set_initial_point()
        b = pep.set_initial_point()
    x0v = rng.randint(-3, 4, size=n).astype(float)
    val.set(x0, x0v)
    val.set(b, rng.randint(-3, 4, size=n).astype(float))

    def give(obj, v):
        if obj.get_is_leaf() and not val.has(obj):
            val.set(obj, np.asarray(v, dtype=float) if not np.isscalar(v) else float(v))

    def pv(p):
        return sem.val_point(p, val, dim=n)

    def prox(x, g_):
        if fam == "quadratic":
            return np.linalg.solve(np.eye(n) + g_ * mem.Q, x + g_ * mem.Q @ mem.c)
        if fam == "l1":
            t = x - mem.c
            return mem.c + np.sign(t) * np.maximum(np.abs(t) - g_ * mem.w, 0.0)
        return mem.project(x)

    slack = 0.0 if case["tight"] else 0.3
    aux = {"h": h, "dirs": []}
    with prog.quiet():
        if step == "linesearch":
            dirs = [Point() for _ in range(case["ndir"])]
            for d in dirs:
                val.set(d, rng.randint(-2, 3, size=n).astype(float))
            aux["dirs"] = dirs
        if step in ("bregman_grad", "bregman_prox"):
            aux["sx0"] = h.gradient(x0)
            give(aux["sx0"], hm.grad(x0v))
            give(h.value(x0), hm.value(x0v))
            aux["gx0"] = f.gradient(x0)
            give(aux["gx0"], mem.grad(x0v, rng))
            give(f.value(x0), mem.value(x0v))
        ret = call_step(case, f, x0, aux)
    if aux.get("dirs_altered"):
        ctx.fail("linesearch:direction-list-altered", "exact_linesearch_step changed the list of directions it was given "
                 "(%d direction(s) passed): a later call reusing the list records more orthogonality than documented" % case["ndir"])
    # run the real operation and value the fresh leaves
    if step == "prox":
        x, gx, fx = ret
        xv = prox(x0v, gamma)
        give(gx, (x0v - xv) / gamma)
        give(fx, mem.value(xv))
    elif step == "inexact_grad":
        x, dx0, fx0 = ret
        g = mem.grad(x0v, rng)
        for (xx, gg, ff) in f.list_of_points:
            give(gg, g)
            give(ff, mem.value(x0v))
        u = rng.randn(n)
        u = u / max(np.linalg.norm(u), 1e-12)
        r = eps * (1.0 - slack) * (1.0 if case["opt"] == "absolute" else np.linalg.norm(g))
        give(dx0, g + r * u)
    elif step == "linesearch":
        x, gx, fx = ret
        D = np.array([pv(d) for d in aux["dirs"]]).T if aux["dirs"] else np.zeros((n, 0))
        # minimise f over x0 + span(D): gradient orthogonal to D and to x - x0
        if D.shape[1]:
            A = D.T @ mem.Q @ D
            t = np.linalg.lstsq(A, -D.T @ mem.grad(x0v), rcond=None)[0]
            xv = x0v + D @ t
        else:
            xv = x0v
        give(x, xv)
        give(gx, mem.grad(xv))
        give(fx, mem.value(xv))
    elif step == "inexact_prox":
        x, gx, fx, w, v, fw, eps_var = ret
        if case["opt"] == "PD_gapII":
            # x = x0 - gamma gx + e : take any x near the exact prox, e is whatever is left
            xv = prox(x0v, gamma) + (0.0 if case["tight"] else 1.0) * rng.randint(-1, 2, size=n)
            if fam == "box":
                xv = mem.project(xv)
            gv = mem.grad(xv, rng)
            ev = xv - x0v + gamma * gv
            give(gx, gv)
            # the fresh error leaf is the one leaf of x that has no value yet
            for leaf, wgt in sem.point_coeffs(x).items():
                if not val.has(leaf):
                    give(leaf, ev / wgt)
            give(fx, mem.value(xv))
            give(eps_var, 0.5 * ev @ ev + slack)
        elif case["opt"] == "PD_gapI":
            xv = prox(x0v, gamma) + rng.randint(-1, 2, size=n)
            wv = rng.randint(-2, 3, size=n).astype(float)
            vv = mem.grad(wv, rng)
            give(x, xv)
            give(gx, mem.grad(xv, rng))
            give(fx, mem.value(xv))
            give(w, wv)
            give(v, vv)
            give(fw, mem.value(wv))
            ev = xv - x0v + gamma * vv
            eps_sub = mem.value(xv) - mem.value(wv) - vv @ (xv - wv)
            give(eps_var, 0.5 * ev @ ev + gamma * eps_sub + slack)
        else:
            # v = (x0 - x)/gamma must be a subgradient at w
            if fam != "quadratic":
                ctx.label("real:skipped-PD_gapIII-needs-invertible-gradient")
                return
            xv = prox(x0v, gamma) + rng.randint(-1, 2, size=n)
            vv = (x0v - xv) / gamma
            wv = mem.c + np.linalg.solve(mem.Q, vv)
            give(x, xv)
            give(gx, mem.grad(xv))
            give(fx, mem.value(xv))
            give(w, wv)
            give(fw, mem.value(wv))
            eps_sub = mem.value(xv) - mem.value(wv) - vv @ (xv - wv)
            give(eps_var, gamma * eps_sub + slack)
    elif step == "eps_subgrad":
        x, g0, f0, epsilon = ret
        yv = x0v + rng.randint(-1, 2, size=n)
        g0v = mem.grad(yv, rng)
        give(g0, g0v)
        give(f0, mem.value(x0v))
        for (xx, gg, ff) in f.list_of_points:
            if gg is g0:
                give(xx, yv)
                give(ff, mem.value(yv))
            elif not val.has(gg) and gg.get_is_leaf():
                give(gg, mem.grad(pv(xx), rng))
                give(ff, mem.value(pv(xx)))
        give(epsilon, mem.value(x0v) + g0v @ yv - mem.value(yv) - g0v @ x0v + slack)
    elif step == "linopt":
        x, gx, fx = ret
        dirv = x0v
        xv = np.where(dirv > 0, mem.lo, mem.hi)
        give(x, xv)
        give(fx, 0.0)
    elif step == "bregman_grad":
        x, sx, hx = ret
        sxv = pv(sx)
        xv = np.linalg.solve(hm.Q, sxv)           # grad h(x) = Q x
        give(x, xv)
        give(hx, hm.value(xv))
    elif step == "bregman_prox":
        x, sx, hx, gx, fx = ret
        # gamma grad f(x) + grad h(x) = grad h(x0)
        xv = np.linalg.solve(gamma * mem.Q + hm.Q, hm.Q @ x0v + gamma * mem.Q @ mem.c)
        give(x, xv)
        give(gx, mem.grad(xv))
        give(fx, mem.value(xv))
        give(hx, hm.value(xv))
    # every leaf must now have a value
    for p in Point.list_of_leaf_points:
        if not val.has(p):
            ctx.fail("real:unvalued-leaf:%s" % step, "%s creates a leaf point the real operation gives no meaning to" % step)
            return
    for e in Expression.list_of_leaf_expressions:
        if not val.has(e):
            ctx.fail("real:unvalued-leaf:%s" % step, "%s creates a leaf expression the real operation gives no meaning to" % step)
            return
    # the returned point is the real step's output
    tag = "%s%s" % (step, (":" + case["opt"]) if case["opt"] else "")
    with prog.quiet():
        f.set_class_constraints()
        h.set_class_constraints()
    worst = 0.0
    for fn in (f, h):
        for c in list(fn.list_of_constraints) + list(fn.list_of_class_constraints):
            v, mag = sem.val_expr(c.expression, val)
            viol = v if c.equality_or_inequality == "inequality" else abs(v)
            if viol > 1e-8 * (1 + mag):
                kind = "side-constraint" if any(c is q for q in fn.list_of_constraints) else "recorded-sample"
                ctx.fail("real:%s-violated:%s" % (kind, tag),
                         "%s on a real %s function: the real operation violates what the step recorded (%s %s, value %.3e)"
                         % (tag, fam, kind, c.get_name(), v))
            worst = max(worst, viol / (1 + mag))
    # tightness of the accuracy constraints (the recorded condition must not be weaker than documented): with zero slack
    # the real data sit exactly on the boundary
    if case["tight"] and step in ("inexact_grad", "inexact_prox", "eps_subgrad"):
        for c in f.list_of_constraints:
            v, mag = sem.val_expr(c.expression, val)
            if c.equality_or_inequality == "inequality" and v < -1e-7 * (1 + mag):
                ctx.fail("real:accuracy-constraint-not-tight:%s" % tag,
                         "%s: data chosen exactly at the documented accuracy leave slack %.3e in the recorded constraint "
                         "(recorded condition is weaker than documented)" % (tag, -v))
    ctx.label("real:" + tag)
    ctx.nontrivial(True)


def check_case(case, ctx):
    if case["kind"] == "sym":
        check_sym(case, ctx)
    else:
        check_real(case, ctx)
