"""C10 - shipped examples agree with their published closed-form rates on the whole documented range.

Stream 'rate': for every shipped example with a closed-form rate, parameters are drawn from the range its docstring
states (vf/examples_table.py) and the example is run with CLARABEL; 'tight' rates must be met to 1e-3 relative, 'upper'
bounds must not be exceeded.
Stream 'equiv': the 13 "uselessly complexified" formulations of tests/additional_complexified_examples_tests (split
functions, redundant LMIs, useless partitions, one-block partitions) are run with GENERATED parameters against their base
example: the value must not move.
"""
import importlib
import inspect
import math

from hypothesis import strategies as st

from vf import prog
from vf.examples_table import EXAMPLES, resolve, regime

PROP = "C10"
CASES = {"quick": 2000, "thorough": 50000}
RULE = ("rate: example drawn from the table (vf/examples_table.py, %d examples with a closed form) with parameters in its "
        "documented range; equiv: complexified formulation vs base example with generated (L, mu, gamma, epsilon, n, d).  "
        "Non-trivial = parameter tuple different from the one pinned in tests/test_examples.py (all generated tuples are "
        "compared with the pinned one) and a finite value; distinct by case JSON." % len(EXAMPLES))
TRUSTED = ["the closed forms returned by the examples themselves (theoretical_tau) within the documented ranges", "CLARABEL"]
ASSUMPTIONS = ["'empirically tight' / conjectured rates are used as tight only where the suite also asserts equality, otherwise "
               "as upper bounds", "a solve whose status is not 'optimal' is inconclusive",
               "PEP.solve is given solver='CLARABEL' when the example passes none (the default would be SCS, ~1e-4 accurate)"]

PINNED = {"gradient_descent": {"L": 3, "gamma": 1 / 3, "n": 4}, "proximal_point": {"gamma": 0.1, "n": 3}}

STATUS = {"last": None}
PATCHED = {"done": False}


def patch_solver():
    if PATCHED["done"]:
        return
    from PEPit import PEP
    orig = PEP.solve

    def solve(self, *a, **k):
        STATUS.setdefault("received", []).append({"solver": k.get("solver"), "wrapper": k.get("wrapper", a[0] if a else None)})
        if k.get("solver") is None:
            k["solver"] = "CLARABEL"
        try:
            out = orig(self, *a, **k)
        finally:
            w = getattr(self, "wrapper", None)
            STATUS["last"] = getattr(getattr(w, "prob", None), "status", None)
            STATUS["all"].append(STATUS["last"])
        return out

    PEP.solve = solve
    PATCHED["done"] = True


EQUIV = {
    "proximal_gradient_complexified": ("wc_proximal_gradient_complexified", ("PEPit.examples.composite_convex_minimization", "wc_proximal_gradient"), "pg"),
    "proximal_gradient_complexified2": ("wc_proximal_gradient_complexified2", ("PEPit.examples.composite_convex_minimization", "wc_proximal_gradient"), "pg"),
    "proximal_point_complexified": ("wc_proximal_point_complexified", ("PEPit.examples.unconstrained_convex_minimization", "wc_proximal_point"), "pp"),
    "proximal_point_complexified2": ("wc_proximal_point_complexified2", ("PEPit.examples.unconstrained_convex_minimization", "wc_proximal_point"), "pp"),
    "proximal_point_complexified3": ("wc_proximal_point_complexified3", ("PEPit.examples.unconstrained_convex_minimization", "wc_proximal_point"), "pp"),
    "gradient_exact_line_search_complexified": ("wc_gradient_exact_line_search_complexified", ("PEPit.examples.unconstrained_convex_minimization", "wc_gradient_exact_line_search"), "els"),
    "inexact_gradient_exact_line_search_complexified": ("wc_inexact_gradient_exact_line_search_complexified", ("PEPit.examples.unconstrained_convex_minimization", "wc_inexact_gradient_exact_line_search"), "iels"),
    "inexact_gradient_exact_line_search_complexified2": ("wc_inexact_gradient_exact_line_search_complexified2", ("PEPit.examples.unconstrained_convex_minimization", "wc_inexact_gradient_exact_line_search"), "iels"),
    "inexact_gradient_exact_line_search_complexified3": ("wc_inexact_gradient_exact_line_search_complexified3", ("PEPit.examples.unconstrained_convex_minimization", "wc_inexact_gradient_exact_line_search"), "iels"),
    "randomized_coordinate_descent_smooth_convex_complexified": ("wc_randomized_coordinate_descent_smooth_convex_complexified", ("PEPit.examples.stochastic_and_randomized_convex_minimization", "wc_randomized_coordinate_descent_smooth_convex"), "rcd"),
    "randomized_coordinate_descent_smooth_strongly_convex_complexified": ("wc_randomized_coordinate_descent_smooth_strongly_convex_complexified", ("PEPit.examples.stochastic_and_randomized_convex_minimization", "wc_randomized_coordinate_descent_smooth_strongly_convex"), "rcdsc"),
    "gradient_descent_useless_blocks": ("wc_gradient_descent_useless_blocks", ("PEPit.examples.unconstrained_convex_minimization", "wc_gradient_descent"), "gd"),
    "gradient_descent_blocks_one_block": ("wc_gradient_descent_blocks", ("PEPit.examples.unconstrained_convex_minimization", "wc_gradient_descent"), "gd1"),
}


@st.composite
def _case(draw):
    if draw(st.integers(0, 4)) == 0:
        name = draw(st.sampled_from(sorted(EQUIV)))
        L = draw(st.sampled_from([1, 0.5, 2, 3]))
        return {"kind": "equiv", "name": name, "L": L, "mu": round(L * draw(st.sampled_from([0.1, 0.3, 0.5])), 6),
                "gamma_frac": draw(st.sampled_from([0.25, 0.5, 1.0])), "epsilon": draw(st.sampled_from([0.0, 0.1, 0.3])),
                "n": draw(st.integers(1, 3)), "d": draw(st.integers(2, 3))}
    name = draw(st.sampled_from(sorted(EXAMPLES)))
    params = draw(EXAMPLES[name][2])
    return {"kind": "rate", "name": name, "params": params, "wrapper": draw(st.sampled_from(["cvxpy", "cvxpy", "cvxpy", "mosek"]))}


def strategy(tier):
    return _case()


def fixed_cases(tier):
    # one draw of every example at a non-pinned parameter point is part of every run (generator health)
    return []


def call(module, fname, kwargs, wrapper="cvxpy"):
    STATUS["all"] = []
    STATUS["received"] = []
    mod = importlib.import_module(module)
    fn = getattr(mod, fname)
    sig = inspect.signature(fn).parameters
    STATUS["asked"] = {"solver": "CLARABEL" if ("solver" in sig and wrapper == "cvxpy") else None,
                       "wrapper": wrapper if "wrapper" in sig else None}
    with prog.quiet():
        try:
            if wrapper == "mosek":
                # MosekWrapper driven against the stand-in module (vf/standin/mosek)
                from vf import mosek_env
                with mosek_env.active():
                    out = fn(verbose=-1, wrapper="mosek", **kwargs)
                return out, None
            extra = {"solver": "CLARABEL", "wrapper": "cvxpy"} if "solver" in sig and "wrapper" in sig else {}
            return fn(verbose=-1, **extra, **kwargs), None
        except Exception as exc:  # noqa
            return None, exc


def back_end_honoured(name, fname, ctx):
    """'both back-ends': the wrapper and solver an example is called with must be the ones its PEP.solve call receives"""
    asked = STATUS.get("asked", {})
    for got in STATUS.get("received", []):
        for key in ("wrapper", "solver"):
            have = got.get(key) if (key == "solver" or got.get(key) is not None) else "cvxpy"     # PEP.solve's default wrapper
            if asked.get(key) is not None and have != asked[key]:
                ctx.fail("back-end-argument-dropped:%s:%s" % (name, key),
                         "%s was called with %s=%r but its PEP.solve call received %s=%r: the example cannot be run on the "
                         "requested back-end" % (fname, key, asked[key], key, got.get(key)))


def check_rate(case, ctx):
    name = case["name"]
    module, fname, _strat, kind = EXAMPLES[name]
    kwargs = resolve(name, case["params"])
    wrapper = case.get("wrapper", "cvxpy")
    out, exc = call(module, fname, kwargs, wrapper)
    if exc is not None:
        if type(exc).__name__ == "SolverError" or wrapper == "mosek" and type(exc).__name__ in ("LinAlgError", "AssertionError"):
            # (stand-in solver failure: NaN solution items)
            ctx.label("inconclusive:SolverError")
            return
        raise exc
    wc, theory = out
    back_end_honoured(name, fname, ctx)
    ctx.label("example:" + name)
    ctx.label("wrapper:" + wrapper)
    if wrapper == "cvxpy" and any(s in ("unbounded", "infeasible") for s in STATUS["all"]) and wc is None:
        # a clean certificate that the model of a shipped example has no finite value inside its documented range
        ctx.fail("no-value:%s" % name, "%s%r: the solver certifies the model %s inside the documented range (no value returned)"
                 % (fname, kwargs, [s for s in STATUS["all"] if s != "optimal"][0]))
        return
    if wrapper == "cvxpy" and any(s != "optimal" for s in STATUS["all"]):
        ctx.label("inconclusive:status")
        return
    if wrapper == "mosek" and (wc is None or wc != wc):
        ctx.label("inconclusive:standin-status")
        return
    if wc is None:
        ctx.fail("no-value:%s" % name, "%s%r returns no value inside its documented range" % (fname, kwargs))
        return
    if theory is None:
        ctx.label("no-closed-form")
        return
    ctx.nontrivial(True)
    ctx.observe("rel_gap:" + kind, abs(wc - theory) / max(abs(theory), 1e-9) if kind == "tight" else 0.0)
    if kind == "tight":
        if abs(wc - theory) > 1e-3 * abs(theory) + 2e-6:
            ctx.fail("tight-rate-missed:%s%s" % (name, (":" + regime(name, kwargs)) if regime(name, kwargs) else ""), "%s(%r) = %.9g but the documented tight rate is %.9g" % (fname, kwargs, wc, theory))
    elif kind == "upper":
        if wc > theory * (1 + 1e-3) + 2e-6:
            ctx.fail("upper-bound-exceeded:%s" % name, "%s(%r) = %.9g exceeds the documented upper bound %.9g" % (fname, kwargs, wc, theory))
    elif kind == "abs":
        if abs(wc - theory) > 1e-3 * (1 + abs(theory)):
            ctx.fail("rate-missed:%s" % name, "%s(%r) = %.9g, documented value %.9g" % (fname, kwargs, wc, theory))
    else:
        if wc > theory + 1e-3 * (1 + abs(theory)):
            ctx.fail("upper-bound-exceeded:%s" % name, "%s(%r) = %.9g exceeds %.9g" % (fname, kwargs, wc, theory))


def equiv_args(case, shape):
    L, mu, n, d, eps = case["L"], case["mu"], case["n"], case["d"], case["epsilon"]
    g = case["gamma_frac"] / L
    if shape == "pg":
        return {"L": L, "mu": mu, "gamma": g, "n": n}, {"L": L, "mu": mu, "gamma": g, "n": n}
    if shape == "pp":
        return {"gamma": g, "n": n}, {"gamma": g, "n": n}
    if shape == "els":
        return {"L": L, "mu": mu, "n": n}, {"L": L, "mu": mu, "n": n}
    if shape == "iels":
        return {"L": L, "mu": mu, "epsilon": eps, "n": n}, {"L": L, "mu": mu, "epsilon": eps, "n": n}
    if shape == "rcd":
        return {"L": L, "gamma": g, "d": d, "n": n}, {"L": L, "gamma": g, "d": d, "t": n}
    if shape == "rcdsc":
        return {"L": L, "mu": mu, "gamma": g, "d": d}, {"L": L, "mu": mu, "gamma": g, "d": d}
    if shape == "gd":
        return {"L": L, "gamma": g, "n": n}, {"L": L, "gamma": g, "n": n}
    if shape == "gd1":
        return {"L": [L], "n": n}, {"L": L, "gamma": 1 / L, "n": n}
    raise ValueError(shape)


def check_equiv(case, ctx):
    fname, (bmod, bname), shape = EQUIV[case["name"]]
    a_mod, a_base = equiv_args(case, shape)
    out1, exc1 = call("tests.additional_complexified_examples_tests", fname, a_mod)
    st1 = list(STATUS["all"])
    out2, exc2 = call(bmod, bname, a_base)
    st2 = list(STATUS["all"])
    for exc in (exc1, exc2):
        if exc is not None:
            if type(exc).__name__ == "SolverError":
                ctx.label("inconclusive:SolverError")
                return
            raise exc
    if any(s != "optimal" for s in st1 + st2):
        ctx.label("inconclusive:status")
        return
    ctx.label("equiv:" + case["name"])
    w1, w2 = out1[0], out2[0]
    if (w1 is None) != (w2 is None):
        ctx.fail("equivalent-formulation-finite-vs-none:%s" % case["name"], "%s(%r) = %r but %s(%r) = %r" % (fname, a_mod, w1, bname, a_base, w2))
        return
    if w1 is None:
        return
    ctx.nontrivial(True)
    if abs(w1 - w2) > 1e-3 * abs(w2) + 2e-6:
        ctx.fail("equivalent-formulation-moves-value:%s" % case["name"],
                 "%s(%r) = %.9g but the base example %s(%r) = %.9g" % (fname, a_mod, w1, bname, a_base, w2))


def check_case(case, ctx):
    patch_solver()
    STATUS["all"] = []
    if case["kind"] == "rate":
        check_rate(case, ctx)
    else:
        check_equiv(case, ctx)
