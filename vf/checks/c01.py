"""C01 - the returned upper bound is backed by a complete, checkable dual certificate.

Generated: method-like models (vf/gen.py: all shipped classes, 1-3 steps, several metrics, user constraints
with constants on the PEP and on functions, LMIs on the PEP / functions, symmetric as written or not, unused
objects, partitions) x configurations (solver CLARABEL / SCS / default, verbosity, primal/dual return, dimension
reduction).  Oracle: the proof is re-derived independently of PEP.check_feasibility from the multipliers the
library exposes (Constraint.eval_dual, PSDMatrix.eval_dual, PEP.residual) and the symbolic constraints read
through vf.sem:      R = objective - sum lambda_i c_i + <S, G> + sum_j <Lambda_j, M_j>
must be a constant functional (all Gram / function-value coefficients ~ 0), that constant must be the value
returned in dual mode, inequality multipliers must be >= 0, S and Lambda_j PSD, one multiplier per sent
constraint with the right shape, and the sent lists must be exactly what the wrapper received.
"""
import numpy as np
from hypothesis import strategies as st

from vf import gen, prog, sem, oracles

PROP = "C01"
CASES = {"quick": 2000, "thorough": 80000}
RULE = ("generated bounded method-like models over all 24 classes (<= 3 steps, <= 3 metrics, extras: user "
        "constraints with constants, equalities, LMIs symmetric or not as written, function-level constraints/LMIs, "
        "unused objects, partitions, redeclared constraints) x {CLARABEL, SCS, default solver} x verbose x "
        "{dual, primal} x dimension reduction. Non-trivial = finite solve with status optimal, >= 1 class constraint "
        "and >= 1 of {user constraint with a constant term, LMI, second metric} carrying a multiplier above "
        "tolerance; distinct by (program, options) JSON.")
TRUSTED = ["vf/sem.py", "cvxpy + CLARABEL/SCS as numerical solvers (status 'optimal' only; other statuses are "
                         "inconclusive)"]
ASSUMPTIONS = ["MOSEK back-end is exercised against the stand-in module in C11, not here",
               "tolerances are scale-relative: 2e-5 (CLARABEL) / 2e-2 (SCS) times (1 + largest multiplier)"]


@st.composite
def _case(draw, thorough):
    if draw(st.integers(0, 3)) == 0:
        m = draw(gen.wild_model(max_len=16 if thorough else 12))
    else:
        m = draw(gen.model(max_steps=3 if thorough else 2, allow_nonsym_lmi=True))
    o = draw(gen.solve_options(solvers=("CLARABEL", "CLARABEL", "CLARABEL", "SCS", None), allow_drh=True))
    return {"instrs": m["instrs"], "opts": o, "tags": m["meta"]["tags"], "cls": m["meta"]["cls"]}


def strategy(tier):
    return _case(tier == "thorough")


def fixed_cases(tier):
    base = [["func", "SmoothStronglyConvexFunction", {"mu": 0.1, "L": 1}, None, False], ["init_point", None],
            ["stat", 0, None], ["gd", 0, 0, 1.0], ["oracle", 0, 3], ["expr", "sqdist", 0, 1],
            ["cons", "init", 3, "<=", 1, None], ["expr", "sqdist", 3, 1], ["metric", 4, None]]
    nonsym = base + [["new_expr"], ["new_expr"], ["lmi", "pep", [[["e", 4], ["e", 5]], [["e", 6], ["n", 1]]], False, None],
                     ["metric", 5, None]]
    return [{"instrs": base, "opts": {"wrapper": "cvxpy", "solver": "CLARABEL", "verbose": 0, "ret": "dual"},
             "tags": [], "cls": "SmoothStronglyConvexFunction"},
            {"instrs": nonsym, "opts": {"wrapper": "cvxpy", "solver": "CLARABEL", "verbose": 0, "ret": "dual"},
             "tags": ["nonsym_lmi", "lmi"], "cls": "SmoothStronglyConvexFunction"}]


def lmi_symmetric_as_written(m):
    for a in range(m.shape[0]):
        for b in range(a):
            if not sem.fun_equal(sem.functional(m.matrix_of_expressions[a, b]),
                                 sem.functional(m.matrix_of_expressions[b, a])):
                return False
    return True


def check_case(case, ctx):
    env = prog.run_program(case["instrs"])
    opts = case["opts"]
    ob = oracles.solve_observed(env, opts)
    sc = oracles.solver_class(opts)
    ctx.label("solver:" + sc)
    if oracles.solver_gave_up(ob, ctx):
        return
    if ob.result is None:
        ctx.label("solve:none")
        return
    if ob.status != "optimal":
        ctx.label("inconclusive:status-%s" % ob.status)
        return
    ctx.label("solve:finite")
    pep = env.pep

    # (d) the lists the certificate ranges over are exactly what the wrapper received, one multiplier each
    lc, ll = pep._list_of_constraints_sent_to_wrapper, pep._list_of_psd_sent_to_wrapper
    if [id(c) for c in lc] != [id(c) for c in ob.sent_constraints] or [id(m) for m in ll] != [id(m) for m in ob.sent_lmis]:
        ctx.fail("sent-list-mismatch", "PEP._list_of_*_sent_to_wrapper differ from what the wrapper received")
        return
    for c in lc:
        try:
            lam = c.eval_dual()
        except Exception as exc:  # noqa
            ctx.fail("no-multiplier:constraint", "sent constraint has no multiplier: %s" % exc)
            return
        if not np.isscalar(lam) and np.asarray(lam).shape != ():
            ctx.fail("multiplier-shape:constraint", "multiplier of a scalar constraint has shape %r" % (np.shape(lam),))
            return
    nonsym = [m for m in ll if not lmi_symmetric_as_written(m)]
    if nonsym:
        ctx.label("has-nonsymmetric-lmi")

    cert = oracles.certificate(pep, lc, ll)
    if "shape_error" in cert:
        ctx.fail("multiplier-shape", cert["shape_error"])
        return
    k = oracles.TOL[sc]
    tol = k * (cert["scale"] + abs(cert["const"]))
    ctx.observe("identity_residual/scale:" + sc, cert["max_nonconst"] / (cert["scale"] + abs(cert["const"])))
    if cert["max_nonconst"] > tol:
        explained = None
        if nonsym:
            explained = oracles.residual_after_entry_equalities(cert["R"], nonsym)
        if explained is not None and explained[0] <= tol:
            # exactly the missing multipliers of the entry equalities e_ab = e_ba of an LMI that is not symmetric
            # as written: a specific, separately tracked root cause
            ctx.fail("identity-incomplete:entry-equality-multipliers-of-nonsymmetric-lmi-not-exposed",
                     "certificate identity residual %.3e (tol %.1e) is a combination of the entry equalities "
                     "e_ab - e_ba of an LMI whose entries are not symmetric as written; their multipliers are not "
                     "exposed" % (cert["max_nonconst"], tol))
        else:
            ctx.fail("identity-incomplete:%s" % cert["worst_kind"],
                     "certificate identity has a non-constant residual %.3e (tol %.1e): some multiplier is missing, "
                     "misplaced or has the wrong sign" % (cert["max_nonconst"], tol))
    if cert.get("entry_sym_err", 0.0) > tol:
        ctx.fail("entry-multipliers-inconsistent-with-lmi-multiplier",
                 "the symmetric part of entries_dual_variable_value differs from the LMI multiplier by %.3e" % cert["entry_sym_err"])
    if cert["min_ineq_dual"] < -tol:
        ctx.fail("negative-inequality-multiplier", "inequality multiplier %.3e < 0" % cert["min_ineq_dual"])
    if cert["min_eig_S"] < -tol:
        ctx.fail("residual-not-psd", "residual has eigenvalue %.3e" % cert["min_eig_S"])
    if cert["min_eig_L"] < -tol:
        ctx.fail("lmi-multiplier-not-psd", "LMI multiplier has eigenvalue %.3e" % cert["min_eig_L"])
    ctx.observe("neg_multiplier/scale:" + sc, max(0.0, -cert["min_ineq_dual"], -cert["min_eig_S"], -cert["min_eig_L"])
                / (cert["scale"] + abs(cert["const"])))

    # (c) value returned in dual mode == constant of the identity ; (e) primal <= dual + tol
    if opts.get("ret", "dual") == "dual":
        if abs(ob.result - cert["const"]) > 1e-7 * (1 + abs(cert["const"]) + cert["scale"]) and cert["max_nonconst"] <= tol:
            ctx.fail("dual-value-not-identity-constant", "dual return %.12g but identity constant %.12g"
                     % (ob.result, cert["const"]))
        primal = pep.objective.eval()
    else:
        primal = ob.result
    if not opts.get("drh"):
        if primal > cert["const"] + tol and cert["max_nonconst"] <= tol:
            ctx.fail("primal-exceeds-dual", "primal %.9g exceeds certified bound %.9g" % (primal, cert["const"]))

    # non-triviality: class constraint present and an 'interesting' multiplier is active
    declared = [c for (_w, c) in env.declared_constraints]
    active_thr = 1e-4 * cert["scale"]
    interesting = False
    n_metrics = len(env.declared_metrics)
    for c in lc:
        lam = abs(c.eval_dual())
        if lam <= active_thr:
            continue
        if any(c is d for d in declared[1:]) and abs(sem.functional(c.expression).get(("1",), 0.0)) > 0:
            interesting = True
            ctx.label("active:user-constraint-with-constant")
    for idx, c in enumerate(lc[:n_metrics]):
        if idx >= 1 and abs(c.eval_dual()) > active_thr:
            interesting = True
            ctx.label("active:second-metric")
    for m in ll:
        if np.max(np.abs(m.eval_dual())) > active_thr:
            interesting = True
            ctx.label("active:lmi")
    n_class = sum(len(f.list_of_class_constraints) for f in env.F if f.get_is_leaf())
    if opts.get("drh"):
        ctx.label("dimension-reduction")
    ctx.label("cls:" + case.get("cls", "?"))
    ctx.nontrivial(interesting and n_class > 0)
