"""C05 - the problem handed to the solver is exactly the declared model.

Streams
 translate : random expressions (C06 generator: repeated / mirrored inner-product keys, diagonal terms, constants,
             zero coefficients, leaf and composite) -> expression_to_matrices / expression_to_sparse_matrices;
             for random symmetric G and F the dense value <Gw,G>+Fw.F+c and the value of the matrix rebuilt from
             the sparse lower-triangular triplets (MOSEK appendsparsesymmat semantics) must equal the independent
             evaluation of the expression.
 collect   : random legal programs ("soup": any classes, oracle calls, all 8 steps, constraints on the PEP / leaf /
             composite functions, redeclared constraints, LMIs, partitions, several metrics, unused objects) are
             run through PEP.solve with a recording wrapper in build-only mode.  The interpreter's own ledger of
             declarations (+ class constraints present on the leaf functions, + independently derived partition
             relations) must equal, as a multiset, what the wrapper received (by object identity) and what the cvxpy
             problem contains (by affine function, evaluated at random points, with the declared sense).
 mosek     : the same programs through MosekWrapper on the recording stand-in (vf/standin): every task row is decoded
             back to an affine function + bound key and compared in the same way.
"""
import numpy as np
from hypothesis import strategies as st

from vf import gen, prog, sem, record
from vf.checks import c06

PROP = "C05"
CASES = {"quick": 6000, "thorough": 400000}
RULE = ("translate: C06 expression trees (depth<=5) evaluated at 3 random (G,F); collect: random legal instruction soups "
        "(<= 28 instructions over all 24 classes, 8 steps, constraints on PEP / leaf / composite functions, "
        "redeclarations, LMIs 1x1..3x3, partitions, 1-3 metrics) in build-only mode, cvxpy back-end and stand-in "
        "MOSEK back-end. Non-trivial = expression with a mirrored key pair or a repeated key, or a program with >= 2 "
        "constraint sources of different kinds; distinct by case JSON.")
TRUSTED = ["vf/sem.py", "cvxpy expression .value evaluation", "vf/standin/mosek (documented Task semantics)"]
ASSUMPTIONS = ["LinearOperator / (Skew)SymmetricLinearOperator are always given at least one (adjoint) sample: "
               "without one they emit a 0x0 LMI that cvxpy rejects (recorded in DESIGN.md as out of the listed properties)",
               "constraints equal up to a positive factor (non-zero factor for equalities) are the same constraint"]

NEED_SAMPLE = ("LinearOperator", "SymmetricLinearOperator", "SkewSymmetricLinearOperator")


# ----------------------------------------------------------------------------------------------------------------
# strategies
# ----------------------------------------------------------------------------------------------------------------
def _lin(draw):
    """random linear combination of 2..4 leaf points with non-zero (possibly equal / opposite) coefficients"""
    ks = draw(st.lists(st.integers(0, c06.NP - 1), min_size=2, max_size=4))
    t = None
    for k in ks:
        term = ["mul", ["n", draw(st.sampled_from([1, 2, 3, -1, 0.5, -2.5, 0]))], ["p", k]]
        t = term if t is None else ["add", t, term]
    return t


def _rawp(draw):
    """a combination built with the documented constructor Point(is_leaf=False, decomposition_dict=...): weights are kept as
    given, explicit zeros included (arithmetic prunes them, the constructor does not)"""
    ks = draw(st.lists(st.integers(0, c06.NP - 1), min_size=1, max_size=4, unique=True))
    return ["rawp", [[k, draw(st.sampled_from([1, 0, -1, 2, 0, 0.5, -2.5]))] for k in ks]]


def _rawe(draw):
    """Expression(is_leaf=False, decomposition_dict=...) with mirrored / diagonal keys and explicit zero weights"""
    items, seen = [], set()
    for _ in range(draw(st.integers(1, 6))):
        kind = draw(st.sampled_from(["G", "G", "G", "F", "1"]))
        i, j = draw(st.integers(0, c06.NP - 1)), draw(st.integers(0, c06.NP - 1))
        if kind == "G" and draw(st.booleans()) and items and items[-1][0] == "G":
            i, j = items[-1][2], items[-1][1]                       # the mirror of the previous key
        if kind == "F":
            i, j = draw(st.integers(0, c06.NE - 1)), 0
        key = (kind, i, j) if kind != "1" else ("1",)
        if key in seen:
            continue
        seen.add(key)
        items.append([kind, i, j, draw(st.sampled_from([1, 0, -1, 2, 0, 0.5, -2.5]))])
    return ["rawe", items]


@st.composite
def _translate(draw, depth):
    if draw(st.integers(0, 3)) == 0:
        # shapes that only the constructors produce: explicit zero coefficients next to mirrored keys
        tree = _rawe(draw) if draw(st.booleans()) else ["mul", _rawp(draw), _rawp(draw)]
        for _ in range(draw(st.integers(0, 1))):
            tree = [draw(st.sampled_from(["add", "sub"])), tree, draw(st.one_of(st.just(_rawe(draw)), c06._E(1)))]
        return {"kind": "translate", "tree": tree, "seed": draw(st.integers(0, 2 ** 31 - 1))}
    if draw(st.integers(0, 2)) == 0:
        # products of linear combinations: mirrored keys (p,q) and (q,p) with unequal coefficients, diagonal terms
        tree = ["mul", _lin(draw), _lin(draw)]
        for _ in range(draw(st.integers(0, 2))):
            tree = [draw(st.sampled_from(["add", "sub"])), tree, draw(st.one_of(
                st.just(["mul", _lin(draw), _lin(draw)]), c06._E(1), c06.S))]
    else:
        tree = draw(c06._E(draw(st.integers(1, depth))))
    seed = draw(st.integers(0, 2 ** 31 - 1))
    return {"kind": "translate", "tree": tree, "seed": seed}


idx = st.integers(0, 40)
wgt = st.sampled_from([1, -1, 2, 0.5, -0.5, 0, 3, 1.5])
gam = st.sampled_from([1, 0.5, 2, 0.1, 1.5])


@st.composite
def soup(draw, max_len=24):
    em = gen.Emitter()
    classes = draw(st.lists(st.sampled_from(prog.ALL_CLASSES), min_size=1, max_size=3))
    for cls in classes:
        params = draw(gen.class_params(cls))
        if cls == "BlockSmoothConvexFunction":
            b = em.emit("partition", params["d"])["B"][0]
            params = dict(params, partition=b)
        f = em.func(cls, params, draw(gen.name_or_none), False)
    x0 = em.init_point(draw(gen.pname_or_none))
    # mandatory samples for the LMI classes
    for fi, cls in enumerate(classes):
        if cls in NEED_SAMPLE:
            g = em.emit("grad", fi, x0)["P"][0]
            if cls == "LinearOperator":
                em.emit("adjoint", fi, g)
    em.expr("sq", x0)
    n = draw(st.integers(3, max_len))
    for _ in range(n):
        op = draw(st.sampled_from(["oracle", "oracle", "grad", "value", "gd", "stat", "fixed", "lincomb", "compose",
                                   "step", "step", "expr", "expr", "cons", "cons", "cons_f", "lmi", "metric",
                                   "partition", "block", "redeclare", "new_point", "new_expr", "adjoint", "set_v",
                                   "unused_cons", "func"]))
        if op == "oracle":
            em.emit("oracle", draw(idx), draw(idx))
        elif op == "grad":
            em.emit("grad", draw(idx), draw(idx))
        elif op == "value":
            em.emit("value", draw(idx), draw(idx))
        elif op == "gd":
            em.emit("gd", draw(idx), draw(idx), draw(gam))
        elif op == "stat":
            em.emit("stat", draw(idx), None)
        elif op == "fixed":
            em.emit("fixed", draw(idx))
        elif op == "lincomb":
            em.emit("lincomb", [[draw(idx), draw(wgt)] for _ in range(draw(st.integers(1, 3)))])
        elif op == "compose":
            # composites over leaf functions only (indices of the declared classes), non-zero weights
            terms = [[draw(st.integers(0, len(classes) - 1)), draw(st.sampled_from([1, 2, 0.5, -1, 3]))]
                     for _ in range(draw(st.integers(1, 3)))]
            em.emit("compose", terms)
        elif op == "step":
            kind = draw(st.sampled_from(sorted(gen.STEP_GROWTH)))
            if kind == "prox":
                em.emit("step", "prox", draw(idx), draw(idx), draw(gam))
            elif kind == "inexact_grad":
                em.emit("step", kind, draw(idx), draw(idx), draw(gam), draw(st.sampled_from([0.1, 0.5, 1, 2])),
                        draw(st.sampled_from(["absolute", "relative"])))
            elif kind == "linesearch":
                em.emit("step", kind, draw(idx), draw(idx), [draw(idx) for _ in range(draw(st.integers(0, 2)))])
            elif kind == "inexact_prox":
                em.emit("step", kind, draw(idx), draw(idx), draw(gam), draw(st.sampled_from(["PD_gapI", "PD_gapII", "PD_gapIII"])))
            elif kind == "eps_subgrad":
                em.emit("step", kind, draw(idx), draw(idx), draw(gam))
            elif kind == "linopt":
                em.emit("step", kind, draw(idx), draw(idx))
            else:
                em.emit("step", kind, draw(idx), draw(idx), draw(idx), draw(gam))
        elif op == "expr":
            k = draw(st.sampled_from(["sqdist", "dot", "sq", "fdiff", "lin", "const"]))
            if k in ("sqdist", "dot"):
                em.expr(k, draw(idx), draw(idx))
            elif k == "sq":
                em.expr(k, draw(idx))
            elif k == "fdiff":
                em.expr(k, draw(idx), draw(idx))
            elif k == "lin":
                em.expr(k, [[draw(idx), draw(wgt)] for _ in range(draw(st.integers(1, 3)))], draw(st.sampled_from([0, 1, -2.5])))
            else:
                em.expr("const", draw(st.sampled_from([0, 1, -3.5])))
        elif op == "cons":
            rhs = draw(st.one_of(st.sampled_from([0, 1, -1, 2.5]), idx.map(lambda i: ["e", i])))
            em.emit("cons", draw(st.sampled_from(["pep", "pep", "init"])), draw(idx), draw(st.sampled_from(["<=", ">=", "=="])), rhs,
                    draw(st.one_of(st.none(), st.just("c"))))
        elif op == "cons_f":
            rhs = draw(st.one_of(st.sampled_from([0, 1, -1, 2.5]), idx.map(lambda i: ["e", i])))
            em.emit("cons", ["f", draw(idx)], draw(idx), draw(st.sampled_from(["<=", ">=", "=="])), rhs, None)
        elif op == "unused_cons":
            em.emit("cons", "none", draw(idx), "<=", 1, None)
        elif op == "redeclare" and em.n["C"] > 0:
            em.emit("redeclare", draw(st.sampled_from(["pep", ["f", draw(idx)]])), draw(idx))
        elif op == "lmi":
            size = draw(st.integers(1, 3))
            ent = st.one_of(idx.map(lambda i: ["e", i]), st.sampled_from([0, 1, 2.0, -1]).map(lambda v: ["n", v]))
            if draw(st.booleans()):
                # symmetric as written
                up = {(i, j): draw(ent) for i in range(size) for j in range(i, size)}
                rows = [[up[(min(i, j), max(i, j))] for j in range(size)] for i in range(size)]
            else:
                rows = [[draw(ent) for _ in range(size)] for _ in range(size)]
            if all(x[0] == "n" for r in rows for x in r):
                rows[0][0] = ["e", draw(idx)]      # numpy would turn an all-numeric matrix into int64/float64 entries
            em.emit("lmi", draw(st.sampled_from(["pep", "pep", ["f", draw(idx)], "none"])), rows, draw(st.booleans()), None)
        elif op == "metric":
            em.emit("metric", draw(idx), None)
        elif op == "partition":
            em.emit("partition", draw(st.integers(1, 3)), draw(st.sampled_from([False, False, True])))
        elif op == "block" and em.n["B"] > 0:
            em.emit("block", draw(idx), draw(idx), draw(st.integers(0, 5)))
        elif op == "new_point":
            em.emit("new_point")
        elif op == "new_expr":
            em.emit("new_expr")
        elif op == "adjoint":
            em.emit("adjoint", draw(idx), draw(idx))
        elif op == "set_v":
            em.emit("set_v", draw(idx))
        elif op == "func" and len(classes) < 4:
            cls = draw(st.sampled_from([c for c in prog.ALL_CLASSES if c not in NEED_SAMPLE and c != "BlockSmoothConvexFunction"]))
            em.func(cls, draw(gen.class_params(cls)), None, draw(st.booleans()))
    em.emit("metric", draw(idx), None)
    return em.instrs


@st.composite
def _collect(draw, thorough):
    if draw(st.integers(0, 3)) == 0:
        instrs = draw(gen.model(max_steps=3, allow_nonsym_lmi=True, allow_redeclare=True))["instrs"]
    else:
        instrs = draw(soup(max_len=28 if thorough else 20))
    # LMIs are declared from nested lists or from an object array (both documented); the array may be reused afterwards
    out = []
    for ins in instrs:
        if ins[0] == "lmi":
            ins = (list(ins) + [False, None])[:5] if len(ins) < 5 else list(ins[:5])
            ins.append(draw(st.sampled_from(["list", "list", "ndarray", "ndarray_reused"])))
        out.append(ins)
    instrs = out
    return {"kind": draw(st.sampled_from(["collect", "collect", "mosek"])), "instrs": instrs,
            "seed": draw(st.integers(0, 2 ** 31 - 1)), "verbose": draw(st.sampled_from([0, 0, 1]))}


def strategy(tier):
    th = tier == "thorough"
    return st.one_of(_translate(5), _collect(th), _collect(th))


def fixed_cases(tier):
    # > 128 scalar rows (row index arithmetic of the MOSEK wrapper), LMIs created but not added / added out of order
    big = [["func", "SmoothConvexFunction", {"L": 1}, None, False], ["init_point", None], ["stat", 0, None]]
    x = 0
    for k in range(12):
        big.append(["gd", 0, 2 * k if k else 0, 0.5])
    big += [["expr", "sqdist", 0, 1], ["cons", "init", 13, "<=", 1, None], ["metric", 12, None]]
    order = [["func", "SmoothStronglyConvexFunction", {"mu": 0.1, "L": 1}, None, False], ["init_point", None],
             ["stat", 0, None], ["gd", 0, 0, 1.0], ["oracle", 0, 3], ["expr", "sqdist", 0, 1],
             ["cons", "init", 3, "<=", 1, None], ["expr", "sqdist", 3, 1], ["metric", 4, None],
             ["new_expr"], ["new_expr"],
             ["lmi", "none", [[["e", 4], ["e", 5]], [["e", 5], ["n", 1]]], False, None],
             ["lmi", "pep", [[["e", 3]]], True, None],
             ["lmi", ["f", 0], [[["e", 4], ["e", 6]], [["e", 6], ["n", 2]]], False, None],
             ["lmi", "pep", [[["e", 4], ["e", 5]], [["e", 5], ["n", 1]]], False, None]]
    out = []
    for kind in ("collect", "mosek"):
        out.append({"kind": kind, "instrs": big, "seed": 1, "verbose": 0})
        out.append({"kind": kind, "instrs": order, "seed": 2, "verbose": 0})
    return out


# ----------------------------------------------------------------------------------------------------------------
# translate
# ----------------------------------------------------------------------------------------------------------------
def tree_has_mirror(e):
    keys = [k for k in e.decomposition_dict if isinstance(k, tuple)]
    s = set((id(a), id(b)) for a, b in keys)
    return any((b, a) in s and a != b for a, b in s)


class RawBuilder(c06.Builder):
    def build(self, t):
        from PEPit import Point, Expression
        if t[0] == "rawp":
            return Point(is_leaf=False, decomposition_dict={self.points[k]: w for k, w in t[1]})
        if t[0] == "rawe":
            d = {}
            for kind, i, j, w in t[1]:
                if kind == "G":
                    d[(self.points[i], self.points[j])] = w
                elif kind == "F":
                    d[self.exprs[i]] = w
                else:
                    d[1] = w
            return Expression(is_leaf=False, decomposition_dict=d)
        return super().build(t)


def check_translate(case, ctx):
    from PEPit.tools.expressions_to_matrices import expression_to_matrices, expression_to_sparse_matrices
    from PEPit import Point, Expression
    b = RawBuilder(ctx)
    # a few extra leaves created afterwards so that counters are not just 0..3
    e = b.build(case["tree"])
    if not isinstance(e, Expression):
        return
    rng = np.random.RandomState(case["seed"])
    pts = list(Point.list_of_leaf_points)
    exs = list(Expression.list_of_leaf_expressions)
    n, m = len(pts), len(exs)
    fun = sem.functional(e)
    Gw, Fw, c = expression_to_matrices(e)
    Gw = np.asarray(Gw, dtype=float)
    Fw = np.asarray(Fw, dtype=float)
    if Gw.shape != (n, n) or Fw.shape != (m,):
        ctx.fail("dense-shape", "dense translation has shapes %r %r for %d points, %d expressions" % (Gw.shape, Fw.shape, n, m))
        return
    if np.max(np.abs(Gw - Gw.T)) > 0:
        ctx.fail("dense-not-symmetric", "dense Gweights is not symmetric")
    Ai, Aj, Av, ai, av, alpha = expression_to_sparse_matrices(e)
    Ai, Aj, Av = np.asarray(Ai, dtype=int), np.asarray(Aj, dtype=int), np.asarray(Av, dtype=float)
    ai, av = np.asarray(ai, dtype=int), np.asarray(av, dtype=float)
    if len(Ai) and (np.any(Ai < Aj) or np.any(Ai >= n) or np.any(Aj < 0)):
        ctx.fail("sparse-not-lower-triangular", "sparse triplets are not lower triangular / out of range")
        return
    if len(set(zip(Ai.tolist(), Aj.tolist()))) != len(Ai):
        ctx.fail("sparse-duplicate-triplet", "sparse translation emits the same (i,j) twice")
    if len(set(ai.tolist())) != len(ai):
        ctx.fail("sparse-duplicate-F-index", "sparse translation emits the same F index twice")
    A = np.zeros((n, n))
    for i, j, v in zip(Ai, Aj, Av):
        A[i, j] += v
        if i != j:
            A[j, i] += v
    for _ in range(3):
        V = rng.randint(-3, 4, size=(n, max(n, 1))).astype(float)
        G = V @ V.T + np.diag(rng.randint(0, 3, size=n)).astype(float)
        H = rng.randint(-3, 4, size=(n, n)).astype(float)
        G = G + (H + H.T)            # any symmetric matrix: the identity is affine
        F = rng.randint(-4, 5, size=m).astype(float)
        # evaluate the functional directly with G and F (index = position in the leaf registries, by identity)
        pidx = {id(p): i for i, p in enumerate(pts)}
        eidx = {id(x): i for i, x in enumerate(exs)}
        want = 0.0
        mag = 0.0
        for k, w in fun.items():
            if k[0] == "G":
                t = w * G[pidx[id(k[1])], pidx[id(k[2])]]
            elif k[0] == "F":
                t = w * F[eidx[id(k[1])]]
            else:
                t = w
            want += t
            mag += abs(t)
        dense = float(np.sum(Gw * G) + Fw @ F + c)
        sparse = float(np.sum(A * G) + (av @ F[ai] if len(ai) else 0.0) + alpha)
        tol = 1e-9 * (1 + mag)
        if abs(dense - want) > tol:
            ctx.fail("dense-translation-wrong", "dense translation evaluates to %r, expression denotes %r" % (dense, want))
            break
        if abs(sparse - want) > tol:
            ctx.fail("sparse-translation-wrong", "sparse translation evaluates to %r, expression denotes %r" % (sparse, want))
            break
    mirror = tree_has_mirror(e)
    if any(w == 0 for w in e.decomposition_dict.values()):
        ctx.label("translate:explicit-zero-weight")
    ctx.label("translate:mirrored" if mirror else "translate:plain")
    ctx.nontrivial(mirror or len(fun) >= 4)


# ----------------------------------------------------------------------------------------------------------------
# collect
# ----------------------------------------------------------------------------------------------------------------
def partition_relations(partition):
    """Independent statement of what a partition must impose: <x_i^(k), x_j^(l)> = 0 for k != l, each relation once."""
    out = []
    decomposed = list(partition.blocks_dict.values())
    d = partition.get_nb_blocks()
    seen = set()
    for a, xi in enumerate(decomposed):
        for b, xj in enumerate(decomposed):
            for k in range(d):
                for l in range(d):
                    if k == l:
                        continue
                    key = frozenset([(a, k), (b, l)])
                    if key in seen:
                        continue
                    seen.add(key)
                    out.append((xi[k], xj[l]))
    return out


def inner_fun(p, q):
    """functional of <p, q> from the point decompositions (independent of Point.__mul__)."""
    terms = {}
    keep = {}
    for a, wa in sem.point_coeffs(p).items():
        for b, wb in sem.point_coeffs(q).items():
            i, j = (a, b) if id(a) <= id(b) else (b, a)
            terms[(id(i), id(j))] = terms.get((id(i), id(j)), 0.0) + wa * wb
            keep[(id(i), id(j))] = (i, j)
    return {("G",) + keep[k]: v for k, v in terms.items() if v != 0}


def expected_model(env):
    """Expected multiset: list of ('ineq'|'eq', functional) and list of LMIs (matrix of functionals)."""
    from PEPit import Function, BlockPartition
    pep = env.pep
    scal = []
    lmis = []
    objf = sem.functional(pep.objective)
    for m in env.declared_metrics:
        scal.append(("ineq", sem.fun_lincomb([(1.0, objf), (-1.0, sem.functional(m))]), "metric", None))
    for where, c in env.declared_constraints:
        scal.append((("eq" if c.equality_or_inequality == "equality" else "ineq"), sem.functional(c.expression),
                     "user", c))
    for f, c in env.step_constraints:
        scal.append((("eq" if c.equality_or_inequality == "equality" else "ineq"), sem.functional(c.expression),
                     "step", c))
    for where, m in env.declared_lmis:
        lmis.append((m, "user"))
    for f in Function.list_of_functions:
        if f.get_is_leaf():
            for c in f.list_of_class_constraints:
                scal.append((("eq" if c.equality_or_inequality == "equality" else "ineq"),
                             sem.functional(c.expression), "class", c))
            for m in f.list_of_class_psd:
                lmis.append((m, "class"))
    for part in BlockPartition.list_of_partitions:
        for p, q in partition_relations(part):
            scal.append(("eq", inner_fun(p, q), "partition", None))
    return scal, lmis


def normalise_rows(V, eq_mask):
    V = np.array(V, dtype=float)
    out = np.zeros_like(V)
    for r in range(V.shape[0]):
        s = np.max(np.abs(V[r]))
        if s == 0:
            continue
        row = V[r] / s
        if eq_mask[r]:
            nz = np.nonzero(np.abs(row) > 1e-9)[0]
            if len(nz) and row[nz[0]] < 0:
                row = -row
        out[r] = row
    return out


def match_multisets(obs, exp, tol=1e-7):
    """Greedy multiset matching of rows; returns (unmatched_obs indices, unmatched_exp indices)."""
    used = np.zeros(len(exp), dtype=bool)
    un_obs = []
    for i in range(len(obs)):
        if len(exp) == 0:
            un_obs.append(i)
            continue
        d = np.max(np.abs(exp - obs[i][None, :]), axis=1)
        d[used] = np.inf
        j = int(np.argmin(d))
        if d[j] <= tol:
            used[j] = True
        else:
            un_obs.append(i)
    return un_obs, [j for j in range(len(exp)) if not used[j]]


K = 4


def eval_points(rng, n, m, lmi_shapes):
    pts = []
    for _ in range(K):
        H = rng.randint(-4, 5, size=(n, n)).astype(float)
        G = H + H.T
        F = rng.randint(-5, 6, size=m).astype(float)
        Ms = []
        for sh in lmi_shapes:
            Hm = rng.randint(-4, 5, size=sh).astype(float)
            Ms.append(Hm + Hm.T)
        pts.append((G, F, Ms))
    return pts


def fun_value(fun, G, F, pidx, eidx):
    tot = 0.0
    for k, w in fun.items():
        if k[0] == "G":
            tot += w * G[pidx[id(k[1])], pidx[id(k[2])]]
        elif k[0] == "F":
            tot += w * F[eidx[id(k[1])]]
        else:
            tot += w
    return tot


def expected_rows(scal, lmis, points, pidx, eidx):
    rows, eq, kinds = [], [], []
    for sense, fun, kind, _obj in scal:
        rows.append([fun_value(fun, G, F, pidx, eidx) for (G, F, Ms) in points])
        eq.append(sense == "eq")
        kinds.append(kind)
    for k, (m, kind) in enumerate(lmis):
        for a in range(m.shape[0]):
            for b in range(m.shape[1]):
                fun = sem.functional(m.matrix_of_expressions[a, b])
                rows.append([Ms[k][a, b] - fun_value(fun, G, F, pidx, eidx) for (G, F, Ms) in points])
                eq.append(True)
                kinds.append("lmi-entry:" + kind)
    return rows, eq, kinds


def check_collect(case, ctx, backend):
    from PEPit import Point, Expression
    import cvxpy as cp
    env = prog.run_program(case["instrs"])
    pep = env.pep
    if backend == "cvxpy":
        record.install(build_only=True)
        record.reset_log()
        with prog.quiet():
            res = pep.solve(verbose=case.get("verbose", 0), solver="CLARABEL")
        w = pep.wrapper
        events = list(w.events)
    else:
        from vf import mosek_env
        with prog.quiet():
            res, w, task = mosek_env.solve_build_only(pep, verbose=case.get("verbose", 0))
        events = None
    if res is not None:
        ctx.fail("build-only-returned-value", "harness: build-only solve returned %r" % (res,))
        return
    pts = list(Point.list_of_leaf_points)
    exs = list(Expression.list_of_leaf_expressions)
    pidx = {id(p): i for i, p in enumerate(pts)}
    eidx = {id(e): i for i, e in enumerate(exs)}
    n, m = len(pts), len(exs)
    for msg in env.altered_arguments:
        ctx.fail("declaration-altered-its-argument", msg)
        break
    # a declared LMI holds, entry by entry, the expressions the user wrote (also where (a,b) and (b,a) differ as written)
    for obj, mat in env.lmi_raw:
        stored = obj.matrix_of_expressions
        if stored.shape != (len(mat), len(mat)):
            ctx.fail("lmi-shape-differs-from-declared", "declared %dx%d, stored %r" % (len(mat), len(mat), stored.shape))
            continue
        for a in range(len(mat)):
            for b in range(len(mat)):
                ent = mat[a][b]
                want = sem.functional(ent) if isinstance(ent, Expression) else ({("1",): float(ent)} if ent != 0 else {})
                if not isinstance(stored[a, b], Expression) or not sem.fun_equal(sem.functional(stored[a, b]), want):
                    ctx.fail("lmi-entry-differs-from-declared", "entry (%d,%d) of a declared %dx%d LMI is not the expression "
                             "the user wrote there%s" % (a, b, len(mat), len(mat),
                                                         " (the matrix is not symmetric as written)" if not (isinstance(mat[b][a], Expression) and mat[b][a] is ent) else ""))
                    break
            else:
                continue
            break
    scal, lmis = expected_model(env)
    kinds_present = set(k for (_s, _f, k, _o) in scal) | set("lmi:" + k for (_m, k) in lmis)
    ctx.label("backend:" + backend)
    for k in kinds_present:
        ctx.label("source:" + k)

    # ---- (i) what the wrapper was asked to send, by object identity ------------------------------------------
    sent_c = list(pep._list_of_constraints_sent_to_wrapper)
    sent_m = list(pep._list_of_psd_sent_to_wrapper)
    if backend == "cvxpy":
        ev_c, ev_m = record.sent(events)
        if [id(x) for x in ev_c] != [id(x) for x in sent_c] or [id(x) for x in ev_m] != [id(x) for x in sent_m]:
            ctx.fail("tracking-list-differs-from-calls", "PEP tracking lists differ from the calls the wrapper received")
    else:
        tracked = list(w._list_of_constraints_sent_to_solver)
        if len(tracked) != len(sent_c) + len(sent_m):
            ctx.fail("mosek-tracking-count", "MosekWrapper tracked %d objects, PEP sent %d" % (len(tracked), len(sent_c) + len(sent_m)))
    from collections import Counter
    exp_ids = Counter(id(o) for (_s, _f, k, o) in scal if o is not None)
    got_ids = Counter(id(c) for c in sent_c)
    n_anonymous = sum(1 for (_s, _f, k, o) in scal if o is None)
    missing = exp_ids - got_ids
    extra = got_ids - exp_ids
    if missing:
        kinds = sorted(set(k for (_s, _f, k, o) in scal if o is not None and id(o) in missing))
        ctx.fail("declared-constraint-not-sent:%s" % ",".join(kinds),
                 "%d declared constraint object(s) did not reach the wrapper as often as declared" % sum(missing.values()))
    if sum(extra.values()) != n_anonymous:
        ctx.fail("undeclared-constraint-sent", "%d constraint object(s) were sent that the program never declared "
                 "(expected %d metric/partition constraints created at solve time)" % (sum(extra.values()), n_anonymous))
    exp_m = Counter(id(mm) for (mm, _k) in lmis)
    got_m = Counter(id(mm) for mm in sent_m)
    if exp_m != got_m:
        ctx.fail("lmi-multiset-differs", "LMIs sent %d time(s) in total, declared %d" % (sum(got_m.values()), sum(exp_m.values())))
        return
    # auxiliary matrix variables are paired with LMIs in sending order
    kind_of = {id(mm): k for (mm, k) in lmis}
    lmis = [(mm, kind_of[id(mm)]) for mm in sent_m]

    # ---- (ii) the numeric problem, by affine function at random points ----------------------------------------
    rng = np.random.RandomState(case["seed"])
    shapes = [tuple(mm.shape) for (mm, _k) in lmis]
    points = eval_points(rng, n, m, shapes)
    erow, eeq, ekinds = expected_rows(scal, lmis, points, pidx, eidx)
    if backend == "cvxpy":
        cons = list(w.prob.constraints)
        if w.F.shape != (m,) or w.G.shape != (n, n):
            ctx.fail("variable-shapes", "cvxpy variables have shapes F%r G%r for %d expressions, %d points" % (w.F.shape, w.G.shape, m, n))
            return
        psd = [c for c in cons if isinstance(c, cp.constraints.PSD)]
        if len(psd) != 1 + len(lmis):
            ctx.fail("psd-count", "%d PSD constraints for %d LMIs (+ Gram)" % (len(psd), len(lmis)))
            return
        if [v.id for v in psd[0].variables()] != [w.G.id]:
            ctx.fail("gram-not-psd", "the first PSD constraint is not on the Gram variable")
        Mvars = []
        for c in psd[1:]:
            vs = c.variables()
            if len(vs) != 1 or vs[0].id in (w.G.id, w.F.id):
                ctx.fail("lmi-psd-shape", "an LMI PSD constraint is not on a single auxiliary matrix variable")
                return
            Mvars.append(vs[0])
        for Mv, sh in zip(Mvars, shapes):
            if tuple(Mv.shape) != sh:
                ctx.fail("lmi-variable-shape", "LMI variable of shape %r for an LMI of shape %r" % (Mv.shape, sh))
                return
        orow, oeq = [], []
        scalar_cons = [c for c in cons if not isinstance(c, cp.constraints.PSD)]
        vals = np.zeros((len(scalar_cons), K))
        for t, (G, F, Ms) in enumerate(points):
            w.G.value = G
            w.F.value = F
            for Mv, Mval in zip(Mvars, Ms):
                Mv.value = Mval
            for r, c in enumerate(scalar_cons):
                vals[r, t] = float(np.sum(c.args[0].value) - np.sum(c.args[1].value))
            objv = float(w.prob.objective.args[0].value)
            if abs(objv - fun_value(sem.functional(pep.objective), G, F, pidx, eidx)) > 1e-9 * (1 + abs(objv)):
                ctx.fail("objective-not-tau", "the cvxpy objective is not the objective leaf")
        for c in scalar_cons:
            if isinstance(c, cp.constraints.Equality) or type(c).__name__ == "Equality":
                oeq.append(True)
            elif type(c).__name__ in ("Inequality", "NonPos", "NonNeg"):
                oeq.append(False)
            else:
                ctx.fail("unknown-cvxpy-constraint:%s" % type(c).__name__, "unexpected cvxpy constraint type")
                return
        if type(w.prob.objective).__name__ != "Maximize":
            ctx.fail("objective-sense", "objective is %s" % type(w.prob.objective).__name__)
        orow = vals
    else:
        from vf import mosek_env
        dec = mosek_env.decode_task(task, n, m, shapes, points)
        if "error" in dec:
            ctx.fail("mosek-emission:%s" % dec["error_kind"], dec["error"])
            return
        orow, oeq = dec["rows"], dec["eq"]
        if dec["objsense"] != "maximize":
            ctx.fail("mosek-objective-sense", "objective sense is %s" % dec["objsense"])
        # objective vector must select the objective leaf
        cvec = dec["c"]
        want = np.zeros(len(cvec))
        want[eidx[id(pep.objective)]] = 1.0
        if np.max(np.abs(cvec - want)) > 0 or dec["barc_nonzero"]:
            ctx.fail("mosek-objective-vector", "MOSEK objective is not the objective leaf")
    if len(orow) != len(erow):
        ctx.fail("scalar-count:%s" % backend, "solver received %d scalar (in)equalities, the model declares %d"
                 % (len(orow), len(erow)))
    O = normalise_rows(orow, oeq) if len(orow) else np.zeros((0, K))
    E = normalise_rows(erow, eeq) if len(erow) else np.zeros((0, K))
    # match separately per sense (an inequality must stay an inequality)
    for sense in (True, False):
        oi = [i for i in range(len(O)) if oeq[i] == sense]
        ei = [j for j in range(len(E)) if eeq[j] == sense]
        uo, ue = match_multisets(O[oi] if oi else np.zeros((0, K)), E[ei] if ei else np.zeros((0, K)))
        if uo or ue:
            kinds = sorted(set(ekinds[ei[j]] for j in ue))
            ctx.fail("problem-differs:%s:%s:%s" % (backend, "eq" if sense else "ineq", ",".join(kinds) or "extra"),
                     "%d %s row(s) sent to the solver match no declared constraint and %d declared one(s) (%s) are "
                     "missing / altered" % (len(uo), "equality" if sense else "inequality", len(ue), ",".join(kinds)))
    ctx.nontrivial(len(kinds_present) >= 2)


def check_case(case, ctx):
    if case["kind"] == "translate":
        check_translate(case, ctx)
    elif case["kind"] == "collect":
        check_collect(case, ctx, "cvxpy")
    else:
        from vf import mosek_env
        if not mosek_env.available():
            ctx.label("mosek-standin-unavailable")
            check_collect(case, ctx, "cvxpy")
        else:
            check_collect(case, ctx, "mosek")
