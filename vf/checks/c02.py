"""C02 - primal output is a feasible, self-consistent worst-case instance.

Generated: models x configurations as in C01, plus object histories around the solve: derived objects asked
for a value *before* the solve (which must fail and must not leave anything behind), objects held from before
the solve, objects built *after* the solve from solved leaves, fresh leaves created after the solve.
Oracle (all through vf.sem, never through PEPit arithmetic):
 (a) P^T P == PSD-projection of the solver's Gram matrix (P = evaluated leaf points), leaf expressions == F;
 (b) obj.eval() == the same linear / bilinear combination of the leaf values, for every reachable object;
 (c) every sent constraint / LMI holds at these values up to solver tolerance;
 (d) objective.eval() == primal return == min_k metric_k ;  (e) primal <= dual + tol.
"""
import numpy as np
from hypothesis import strategies as st

from vf import gen, prog, sem, oracles

PROP = "C02"
CASES = {"quick": 2000, "thorough": 80000}
RULE = ("models and configurations as in C01 (vf/gen.py) plus pre-solve eval attempts, held objects, objects built "
        "after the solve and fresh leaves created after the solve. Non-trivial = finite solve with status optimal and "
        ">= 1 derived object (decomposition over >= 2 leaves) evaluated and compared; distinct by case JSON.")
TRUSTED = ["vf/sem.py", "numpy eigh for the PSD projection", "CLARABEL / SCS (status optimal only)"]
ASSUMPTIONS = ["tolerances are scale-relative: 2e-5 (CLARABEL) / 2e-2 (SCS) times the magnitude of the terms involved; the Gram factorisation (a) is held to round-off, 1e-9 times the scale"]


@st.composite
def _case(draw, thorough):
    if draw(st.integers(0, 3)) == 0:
        m = draw(gen.wild_model(max_len=16 if thorough else 12))
    else:
        m = draw(gen.model(max_steps=3 if thorough else 2, allow_nonsym_lmi=True))
    o = draw(gen.solve_options(solvers=("CLARABEL", "CLARABEL", "CLARABEL", "SCS", None), allow_drh=True))
    pre = draw(st.lists(st.tuples(st.sampled_from(["P", "E", "C", "M", "derP", "derE"]), st.integers(0, 60),
                                  st.integers(0, 60)), max_size=4))
    post = draw(st.lists(st.tuples(st.sampled_from(["derP", "derE", "fresh_leaf", "fresh_then_derP", "cons", "lmi"]),
                                   st.integers(0, 60), st.integers(0, 60),
                                   st.sampled_from([1, -1, 2, 0.5, -0.25, 3])), max_size=5))
    return {"instrs": m["instrs"], "opts": o, "pre": [list(x) for x in pre], "post": [list(x) for x in post],
            "cls": m["meta"]["cls"]}


def strategy(tier):
    return _case(tier == "thorough")


def fixed_cases(tier):
    base = [["func", "SmoothStronglyConvexFunction", {"mu": 0.1, "L": 1}, None, False], ["init_point", None],
            ["stat", 0, None], ["gd", 0, 0, 1.0], ["oracle", 0, 3], ["expr", "sqdist", 0, 1],
            ["cons", "init", 3, "<=", 1, None], ["expr", "sqdist", 3, 1], ["metric", 4, None]]
    o = {"wrapper": "cvxpy", "solver": "CLARABEL", "verbose": 0, "ret": "primal"}
    return [{"instrs": base, "opts": o, "pre": [["P", 3, 0], ["derP", 0, 1], ["C", 0, 0]],
             "post": [["fresh_then_derP", 0, 1, 2], ["derE", 0, 3, -1], ["cons", 1, 2, 1], ["lmi", 0, 1, 1]],
             "cls": "SmoothStronglyConvexFunction"},
            {"instrs": base, "opts": dict(o, drh="trace"), "pre": [], "post": [["derP", 0, 2, 1]],
             "cls": "SmoothStronglyConvexFunction"}]


def sem_value(obj, val, dim):
    """(value, magnitude) of any DSL object under the leaf valuation."""
    name = type(obj).__name__
    if name == "Point":
        v = sem.val_point(obj, val, dim=dim)
        mag = sum(abs(w) * float(np.max(np.abs(val.get(l))) if np.size(val.get(l)) else 0.0)
                  for l, w in sem.point_coeffs(obj).items())
        return v, mag
    if name == "Expression":
        return sem.val_expr(obj, val)
    if name == "Constraint":
        return sem.val_expr(obj.expression, val)
    if name == "PSDMatrix":
        return oracles.lmi_value(obj, val)
    raise ValueError(name)


def is_derived(obj):
    name = type(obj).__name__
    if name == "Point":
        return len(sem.point_coeffs(obj)) >= 2
    if name == "Expression":
        p, e = sem.leaves_of_fun(sem.functional(obj))
        return len(p) + len(e) >= 2
    if name == "Constraint":
        return True
    return True


def pick(env, kind, i, j, w=1):
    from PEPit import PSDMatrix
    if kind == "P":
        return env.P[i % len(env.P)]
    if kind == "E":
        return env.E[i % len(env.E)] if env.E else None
    if kind == "C":
        return env.C[i % len(env.C)] if env.C else None
    if kind == "M":
        return env.M[i % len(env.M)] if env.M else None
    if kind == "derP":
        return env.P[i % len(env.P)] - w * env.P[j % len(env.P)]
    if kind == "derE":
        e = env.P[i % len(env.P)] * env.P[j % len(env.P)]
        if env.E:
            e = e + w * env.E[j % len(env.E)] + 0.5
        return e
    if kind == "cons":
        return env.P[i % len(env.P)] ** 2 <= w * (env.P[j % len(env.P)] ** 2) + 1
    if kind == "lmi":
        a = env.P[i % len(env.P)]
        b = env.P[j % len(env.P)]
        return PSDMatrix([[a ** 2, a * b], [a * b, b ** 2]])
    raise ValueError(kind)


def check_case(case, ctx):
    from PEPit import Point, Expression
    env = prog.run_program(case["instrs"])
    opts = case["opts"]
    sc = oracles.solver_class(opts)
    held = []
    # objects asked for a value before the solve: must fail, and must not be affected afterwards
    for kind, i, j in case["pre"]:
        with prog.quiet():
            obj = pick(env, kind, i, j)
        if obj is None:
            continue
        try:
            obj.eval()
        except Exception:  # noqa
            pass
        held.append(("pre-evaluated:" + kind, obj))
    ob = oracles.solve_observed(env, opts)
    if oracles.solver_gave_up(ob, ctx):
        return
    if ob.result is None:
        ctx.label("solve:none")
        return
    if ob.status != "optimal":
        ctx.label("inconclusive:status-%s" % ob.status)
        return
    if oracles.solver_point_infeasible(env.pep.wrapper, ctx, tol=1e-6 if sc != "SCS" else 1e-3):
        return
    ctx.label("solve:finite")
    ctx.label("solver:" + sc)
    pep = env.pep
    k = oracles.TOL[sc]

    # ---- (a) leaves reproduce the solver's Gram matrix and F vector ---------------------------------------
    pts = oracles.leaf_points()
    exs = oracles.leaf_exprs()
    G_solver, F_solver = pep.wrapper.get_primal_variables()
    G_solver = np.asarray(G_solver, dtype=float)
    F_solver = np.asarray(F_solver, dtype=float)
    if pep.G_value is None or np.asarray(pep.G_value).shape != G_solver.shape:
        ctx.fail("G_value-shape", "PEP.G_value missing or of the wrong shape")
        return
    n = len(pts)
    try:
        Pm = np.array([np.asarray(p.eval(), dtype=float) for p in pts]).T if n else np.zeros((0, 0))
    except Exception as exc:  # noqa
        ctx.fail("leaf-eval-raises:%s" % type(exc).__name__, "leaf point has no value after a finite solve: %s" % exc)
        return
    gscale = 1.0 + float(np.max(np.abs(G_solver))) if n else 1.0
    if n:
        gram = Pm.T @ Pm
        proj = oracles.psd_projection(G_solver)
        err = float(np.max(np.abs(gram - proj)))
        ctx.observe("gram_error/scale:" + sc, err / gscale)
        # factorising a given matrix is linear algebra, not optimisation: the tolerance is round-off (largest ratio
        # observed on the unchanged tree over all tiers: 8e-16), not the solver tolerance k
        if err > 1e-9 * gscale:
            ctx.fail("gram-mismatch" + (":drh" if opts.get("drh") else ""),
                     "inner products of evaluated leaf points differ from the PSD projection of the solver's Gram "
                     "matrix by %.3e (tol %.1e)" % (err, 1e-9 * gscale))
        errG = float(np.max(np.abs(np.asarray(pep.G_value, dtype=float) - G_solver)))
        if errG > 1e-12 * gscale:
            ctx.fail("G_value-not-solver-gram", "PEP.G_value differs from the Gram matrix found by the solver by %.3e" % errG)
    for idx, e in enumerate(exs):
        v = e.eval()
        if idx >= len(F_solver) or abs(v - F_solver[idx]) > 1e-12 * (1 + abs(v)):
            ctx.fail("F-mismatch", "leaf expression %d evaluates to %r but the solver's F has %r" % (
                idx, v, F_solver[idx] if idx < len(F_solver) else None))
            break
    if pep.F_value is None or np.max(np.abs(np.asarray(pep.F_value, dtype=float) - F_solver)) > 0:
        ctx.fail("F_value-not-solver-F", "PEP.F_value differs from the solver's F")

    val = oracles.leaf_valuation()
    dim = Pm.shape[0] if n else 0

    # ---- (b) every reachable object evaluates to the combination of its operands ---------------------------
    objs = list(held)
    objs += [("pool:P", p) for p in env.P] + [("pool:E", e) for e in env.E]
    objs += [("pool:C", c) for c in env.C] + [("pool:M", m) for m in env.M]
    objs += [("sent:C", c) for c in ob.sent_constraints] + [("sent:M", m) for m in ob.sent_lmis]
    objs.append(("objective", pep.objective))
    fresh = []
    for kind, i, j, w in case["post"]:
        with prog.quiet():
            if kind == "fresh_leaf":
                fresh.append(Point())
                fresh.append(Expression())
                ctx.label("post:fresh-leaf")
                continue
            if kind == "fresh_then_derP":
                fresh.append(Point())
                obj = pick(env, "derP", i, j, w)
                ctx.label("post:fresh-leaf-then-derived")
            else:
                obj = pick(env, kind, i, j, w)
        objs.append(("post:" + kind, obj))
    n_derived = 0
    for label, obj in objs:
        try:
            with prog.quiet():
                got = obj.eval()
        except Exception as exc:  # noqa
            ctx.fail("eval-raises:%s:%s" % (label.split(":")[0], type(exc).__name__),
                     "%s: eval() raised %s after a finite solve: %s" % (label, type(exc).__name__, exc))
            continue
        want, mag = sem_value(obj, val, dim)
        got = np.asarray(got, dtype=float)
        want = np.asarray(want, dtype=float)
        if got.shape != want.shape:
            ctx.fail("eval-shape:%s" % label.split(":")[0], "%s: eval() has shape %r, expected %r" % (label, got.shape, want.shape))
            continue
        err = float(np.max(np.abs(got - want))) if got.size else 0.0
        if err > 1e-9 * (1.0 + mag):
            ctx.fail("eval-inconsistent:%s:%s" % (label, type(obj).__name__),
                     "%s: eval() = %r but the combination of its operands' values is %r" % (label, got, want))
        if is_derived(obj):
            n_derived += 1

    # ---- (c) feasibility of everything that was sent ----------------------------------------------------------
    if sc == "SCS" and opts.get("drh"):
        # SCS (first order) on the badly scaled trace / log-det re-solves reports 'optimal' for instances that are far from
        # feasible (seen: 100% violation with eig_regularization 1e-6): solver accuracy, not judged.  CLARABEL is judged.
        ctx.label("inconclusive:scs-heuristic-instance")
        ctx.label("cls:" + case.get("cls", "?"))
        ctx.nontrivial(n_derived >= 1)
        return
    worst = 0.0
    for c in ob.sent_constraints:
        v, mag = sem.val_expr(c.expression, val)
        viol = v if c.equality_or_inequality == "inequality" else abs(v)
        rel = viol / (1.0 + mag)
        worst = max(worst, rel)
        if rel > k * 5:
            ctx.fail("constraint-violated:%s%s" % (c.equality_or_inequality, ":drh" if opts.get("drh") else ""),
                     "a sent %s constraint has value %.3e at the returned instance (terms of magnitude %.2e)"
                     % (c.equality_or_inequality, v, mag))
            break
    for m in ob.sent_lmis:
        V, mag = oracles.lmi_value(m, val)
        if V.size:
            asym = float(np.max(np.abs(V - V.T)))
            lam = float(np.min(np.linalg.eigvalsh((V + V.T) / 2)))
            rel = max(-lam, asym) / (1.0 + mag)
            worst = max(worst, rel)
            if rel > k * 5:
                ctx.fail("lmi-violated", "a sent LMI has min eigenvalue %.3e / asymmetry %.3e at the returned instance"
                         % (lam, asym))
                break
    ctx.observe("constraint_violation/scale:" + sc, worst)

    # ---- (d) objective == primal value == min metric ; (e) primal <= dual ---------------------------------
    obj_val = float(pep.objective.eval())
    metrics = [sem.val_expr(e, val)[0] for e in env.declared_metrics]
    mscale = 1.0 + max([abs(x) for x in metrics] + [abs(obj_val)])
    if opts.get("ret") == "primal" and abs(ob.result - obj_val) > 1e-9 * mscale:
        ctx.fail("primal-return-not-objective", "primal return %.12g but objective evaluates to %.12g" % (ob.result, obj_val))
    if metrics:
        tolm = k * 5 * mscale if not opts.get("drh") else (k * 5 * mscale + opts.get("tol_dr", 1e-4) * 1.01)
        if obj_val > min(metrics) + k * 5 * mscale:
            ctx.fail("objective-above-min-metric", "objective %.9g exceeds the smallest metric %.9g" % (obj_val, min(metrics)))
        elif not opts.get("drh") and obj_val < min(metrics) - tolm:
            ctx.fail("objective-below-min-metric", "objective %.9g is below the smallest metric %.9g" % (obj_val, min(metrics)))
    cert = oracles.certificate(pep, ob.sent_constraints, ob.sent_lmis)
    if opts.get("ret", "dual") == "dual" and "shape_error" not in cert:
        # the dual bound as the library reports it (the value returned in dual mode), not only the one rebuilt by the oracle
        if obj_val > ob.result + k * 5 * (mscale + cert["scale"]):
            ctx.fail("primal-exceeds-returned-dual", "primal value %.9g exceeds the dual bound %.9g returned by solve" % (obj_val, ob.result))
    if "shape_error" not in cert and cert["max_nonconst"] <= k * (cert["scale"] + abs(cert["const"])):
        dual = cert["const"]
        if obj_val > dual + k * 5 * (mscale + cert["scale"]):
            ctx.fail("primal-exceeds-dual", "primal value %.9g exceeds the dual bound %.9g" % (obj_val, dual))
        ctx.observe("primal_minus_dual/scale:" + sc, (obj_val - dual) / (mscale + cert["scale"]))
    if opts.get("drh"):
        ctx.label("dimension-reduction")
    ctx.label("cls:" + case.get("cls", "?"))
    ctx.nontrivial(n_derived >= 1)
