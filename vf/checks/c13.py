"""C13 - solving again gives fresh, consistent answers.

Generated history on ONE PEP object:  base model, then rounds of  (edits ; solve(options) ; evaluations of held
objects).  Edits are the ones the repository's own tests perform between two solves (replace the initial
condition, drop / restore it, add a metric, assign the list of metrics, add a user constraint, add an LMI with a
fresh leaf).  After every solve:
  * the result equals the result of a *newly built equivalent model* (same program + same edits, one solve with the
    same options): same value within tolerance, or both None;
  * every held object (pool objects, derived objects built before the first solve or between solves) evaluates to
    the combination of the CURRENT leaf values, which reproduce the latest solver Gram matrix; after a solve that
    returned None nothing evaluates to a number;
  * the certificate identity (C01 oracle) holds for the latest solve, every constraint sent by the latest solve has
    a multiplier, constraints that are no longer sent have none;
  * the amount of data sent equals that of the newly built model (it does not grow with the number of solves).
"""
import numpy as np
from hypothesis import strategies as st

from vf import gen, prog, sem, oracles
from vf.checks import c02

PROP = "C13"
CASES = {"quick": 640, "thorough": 24000}
RULE = ("base model from vf/gen.py, 2-5 rounds of (0-2 edits from {replace_init, drop_init, restore_init, add metric, "
        "assign metrics, add capped user constraint, add LMI [[e,t],[t,1]] with a fresh leaf}; solve with random "
        "options incl. primal/dual, dimension reduction, solver; evaluations of held objects).  Non-trivial = >= 2 "
        "finite solves with an edit or option change in between and >= 1 held derived object evaluated after both; "
        "distinct by case JSON.")
TRUSTED = ["vf/sem.py", "CLARABEL/SCS (status optimal only)", "a new PEP() object is a fresh model (property C12, checked separately)"]
ASSUMPTIONS = ["the SDP solution need not be unique, so point values are compared with the solver's Gram matrix of the "
               "same solve, not with those of the rebuilt model; only optimal values and data sizes are compared across"]


@st.composite
def _case(draw, thorough):
    if draw(st.integers(0, 7)) == 0:
        # a class that creates its own stationary point while generating constraints: the object it leaves on the function
        # after the first solve must not change what later solves send
        m = draw(gen.model_autostat())
    else:
        m = draw(gen.model(max_steps=2, allow_nonsym_lmi=False))
    nr = draw(st.integers(2, 5 if thorough else 4))
    rounds = []
    dropped = False
    for r in range(nr):
        edits = []
        if r > 0 or draw(st.integers(0, 3)) == 0:
            for _ in range(draw(st.integers(0, 2))):
                k = draw(st.sampled_from(["replace_init", "replace_init", "drop_init", "restore_init", "add_metric",
                                          "assign_metrics", "add_cons", "add_lmi", "decompose", "decompose", "new_sample", "new_adjoint_sample"]))
                if k == "replace_init":
                    # E index of the initial-condition expression is unknown here: use the interpreter's convention
                    edits.append(["replace_init_same", draw(st.sampled_from([0.25, 0.5, 2, 4, 1, 9]))])
                elif k == "drop_init":
                    if not dropped:
                        edits.append(["drop_init"])
                        dropped = True
                elif k == "restore_init":
                    if dropped:
                        edits.append(["restore_init"])
                        dropped = False
                elif k == "add_metric":
                    edits.append(["add_metric_scaled", draw(st.integers(0, 5)), draw(st.sampled_from([0.5, 2, 1, 3]))])
                elif k == "assign_metrics":
                    edits.append(["assign_metrics_scaled", draw(st.integers(0, 5)), draw(st.sampled_from([0.5, 2, 1]))])
                elif k == "add_cons":
                    edits.append(["add_cap", draw(st.integers(0, 30)), draw(st.integers(0, 30)),
                                  draw(st.sampled_from([0.01, 0.1, 1, 10]))])
                elif k == "decompose":
                    edits.append(["decompose", draw(st.integers(0, 3)), draw(st.integers(0, 40)), draw(st.integers(0, 3))])
                elif k == "new_sample":
                    edits.append(["new_sample", draw(st.integers(0, 40))])
                elif k == "new_adjoint_sample":
                    edits.append(["new_adjoint_sample", draw(st.integers(0, 40))])
                else:
                    edits.append(["add_lmi_t", draw(st.integers(0, 5)), draw(st.booleans())])
        opts = draw(gen.solve_options(wrappers=("cvxpy", "cvxpy", "cvxpy", "mosek"),
                                      solvers=("CLARABEL", "CLARABEL", "CLARABEL", "SCS"), allow_drh=True))
        evals = draw(st.lists(st.tuples(st.sampled_from(["derP", "derE", "cons", "lmi"]), st.integers(0, 60),
                                        st.integers(0, 60), st.sampled_from([1, -1, 2, 0.5])), max_size=2))
        rounds.append({"edits": edits, "opts": opts, "new_held": [list(e) for e in evals]})
    return {"instrs": m["instrs"], "rounds": rounds, "cls": m["meta"]["cls"]}


def strategy(tier):
    return _case(tier == "thorough")


def fixed_cases(tier):
    base = [["func", "SmoothStronglyConvexFunction", {"mu": 0.1, "L": 1}, None, False], ["init_point", None],
            ["stat", 0, None], ["gd", 0, 0, 1.0], ["oracle", 0, 3], ["expr", "sqdist", 0, 1],
            ["cons", "init", 3, "<=", 1, None], ["expr", "sqdist", 3, 1], ["metric", 4, None]]
    o = {"wrapper": "cvxpy", "solver": "CLARABEL", "verbose": 0, "ret": "dual"}
    part = [["partition", 2]] + base + [["block", 0, 0, 0], ["block", 0, 3, 1]]
    sym = [["func", "SymmetricLinearOperator", {"mu": 0.1, "L": 1}, None, False], ["init_point", None],
           ["gd", 0, 0, 0.5], ["expr", "sq", 0], ["cons", "init", 1, "<=", 1, None], ["expr", "sq", 2], ["metric", 2, None]]
    lin = [["func", "LinearOperator", {"L": 2}, None, False], ["init_point", None], ["new_point"], ["grad", 0, 0], ["adjoint", 0, 2],
           ["expr", "sq", 0], ["cons", "init", 0, "<=", 1, None], ["expr", "sq", 1], ["cons", "pep", 1, "<=", 0.25, None],
           ["expr", "sq", 2], ["metric", 2, None]]
    return [
        {"instrs": lin, "cls": "fixed", "rounds": [{"edits": [], "opts": o, "new_held": []},
                                                   {"edits": [["new_adjoint_sample", 1]], "opts": o, "new_held": []},
                                                   {"edits": [["new_adjoint_sample", 0], ["new_sample", 1]], "opts": o, "new_held": []}]},
        {"instrs": base, "cls": "fixed", "rounds": [
            {"edits": [], "opts": o, "new_held": [["derP", 0, 1, 1], ["derE", 3, 1, 2]]},
            {"edits": [["replace_init_same", 4]], "opts": dict(o, ret="primal"), "new_held": []},
            {"edits": [["drop_init"]], "opts": o, "new_held": []},
            {"edits": [["restore_init"], ["add_lmi_t", 0, True]], "opts": dict(o, drh="trace"), "new_held": [["cons", 0, 1, 1]]}]},
        {"instrs": part, "cls": "fixed", "rounds": [{"edits": [], "opts": o, "new_held": []},
                                                    {"edits": [], "opts": o, "new_held": []},
                                                    {"edits": [["add_cap", 0, 1, 0.1]], "opts": o, "new_held": []}]},
        {"instrs": sym, "cls": "fixed", "rounds": [{"edits": [], "opts": o, "new_held": []},
                                                   {"edits": [["replace_init_same", 2]], "opts": o, "new_held": []},
                                                   {"edits": [], "opts": dict(o, solver="SCS"), "new_held": []}]},
    ]


# ----------------------------------------------------------------------------------------------------------------
def apply_edit(it, ed, state):
    """Translate a high-level edit into interpreter instructions (deterministic given the environment)."""
    env = it.env
    k = ed[0]
    if k == "replace_init_same":
        # same left-hand side as the current first PEP constraint, new right-hand side
        lst = env.pep.list_of_constraints
        if not lst:
            return
        c0 = lst[0]
        # rebuild  lhs <= R  from the functional of c0 (expression minus its constant)
        from PEPit import Expression
        d = {k_: v for k_, v in c0.expression.decomposition_dict.items() if k_ != 1}
        lhs = Expression(is_leaf=False, decomposition_dict=dict(d))
        env.E.append(lhs)
        it.step(["replace_init", len(env.E) - 1, ed[1]])
    elif k == "drop_init":
        it.step(["drop_init"])
    elif k == "restore_init":
        it.step(["restore_init"])
    elif k == "add_metric_scaled":
        if not env.declared_metrics:
            return
        src = env.declared_metrics[ed[1] % len(env.declared_metrics)]
        env.E.append(ed[2] * src)
        it.step(["metric", len(env.E) - 1, None])
    elif k == "assign_metrics_scaled":
        if not env.declared_metrics:
            return
        src = env.declared_metrics[ed[1] % len(env.declared_metrics)]
        env.E.append(ed[2] * src)
        it.step(["assign_metrics", [len(env.E) - 1]])
    elif k == "add_cap":
        it.step(["expr", "dot", ed[1], ed[2]])
        it.step(["cons", "pep", len(env.E) - 1, "<=", ed[3], None])
    elif k == "decompose":
        # decompose one more point in an existing partition (no-op for models without partition)
        if env.B:
            it.step(["block", ed[1], ed[2], ed[3]])
    elif k == "new_sample":
        # one more evaluation of the first (leaf) function at an existing point: new class constraints at the next solve
        leaf = [i for i, m in enumerate(env.Fmeta) if m.get("leaf")]
        if leaf:
            it.step(["grad", leaf[0], ed[1]])
    elif k == "new_adjoint_sample":
        # one more evaluation of the adjoint of a LinearOperator (its class constraints also depend on those samples)
        lin = [i for i, f in enumerate(env.F) if hasattr(f, "T")]
        if lin:
            it.step(["adjoint", lin[0], ed[1]])
    elif k == "add_lmi_t":
        if not env.declared_metrics:
            return
        src = env.declared_metrics[ed[1] % len(env.declared_metrics)]
        env.E.append(src)
        si = len(env.E) - 1
        it.step(["new_expr"])
        ti = len(env.E) - 1
        it.step(["lmi", "pep", [[["e", si], ["e", ti]], [["e", ti], ["n", 1]]], False, None])
        if ed[2]:
            it.step(["metric", ti, None])
    else:
        raise ValueError(k)


def has_leaf(obj):
    name = type(obj).__name__
    if name == "Point":
        return len(sem.point_coeffs(obj)) > 0
    if name == "Expression":
        p, e = sem.leaves_of_fun(sem.functional(obj))
        return len(p) + len(e) > 0
    if name == "Constraint":
        return has_leaf(obj.expression)
    return any(has_leaf(e) for row in obj.matrix_of_expressions for e in row)


def data_size(ob):
    return (len(ob.sent_constraints), len(ob.sent_lmis), sum(int(m.shape[0]) ** 2 for m in ob.sent_lmis))


def check_case(case, ctx):
    from PEPit import Point, Expression
    it = prog.Interp()
    it.run(case["instrs"])
    env = it.env
    held = [("pool:P", p) for p in env.P] + [("pool:E", e) for e in env.E] + [("pool:C", c) for c in env.C] \
        + [("pool:M", m) for m in env.M]
    outcomes = []
    ever_sent = {}
    n_finite = 0
    changed = False
    n_derived_checked_rounds = 0
    for r, rnd in enumerate(case["rounds"]):
        with prog.quiet():
            for ed in rnd["edits"]:
                apply_edit(it, ed, None)
                changed = True
            for kind, i, j, w in rnd["new_held"]:
                held.append(("held:" + kind, c02.pick(env, kind, i, j, w)))
        opts = rnd["opts"]
        sc = oracles.solver_class(opts)
        ob = oracles.solve_observed(env, opts)
        if oracles.solver_gave_up(ob, ctx):
            return
        pep = env.pep
        out = {"result": ob.result, "status": ob.status, "size": data_size(ob), "n_metrics": len(env.declared_metrics),
               "init_dropped": bool(getattr(env, "dropped", []))}
        outcomes.append(out)
        for c in ob.sent_constraints:
            ever_sent[id(c)] = c
        for m in ob.sent_lmis:
            ever_sent[id(m)] = m
        k = oracles.TOL[sc]
        if ob.result is None and opts.get("wrapper") == "mosek" and ob.status != "optimal":
            ctx.label("round:mosek-standin-inconclusive")
            out["inconclusive"] = True
            continue
        if ob.result is None:
            ctx.label("round:none")
            # nothing evaluates to a number of an earlier solve
            for label, obj in held:
                if not has_leaf(obj):
                    continue
                try:
                    v = obj.eval()
                except ValueError as exc:
                    if "must be solved" not in str(exc):
                        ctx.fail("after-none:wrong-error:%s" % type(obj).__name__, "eval after a solve that returned None: %s" % exc)
                    continue
                except Exception as exc:  # noqa
                    ctx.fail("after-none:wrong-exception:%s:%s" % (type(obj).__name__, type(exc).__name__), str(exc))
                    continue
                ctx.fail("stale-value-after-none:%s" % type(obj).__name__,
                         "%s evaluates to %r after a solve that found no finite value (numbers of an earlier solve)" % (label, v))
                break
            for obj in ever_sent.values():
                try:
                    d = obj.eval_dual()
                except ValueError:
                    continue
                ctx.fail("stale-dual-after-none", "eval_dual() returns %r after a solve that found no finite value" % (d,))
                break
            continue
        if ob.status != "optimal":
            ctx.label("round:inconclusive-status")
            out["inconclusive"] = True
            continue
        n_finite += 1
        ctx.label("round:finite")
        # -- current leaves reproduce the latest solver Gram matrix ----------------------------------------------
        pts = oracles.leaf_points()
        G_solver, F_solver = pep.wrapper.get_primal_variables()
        G_solver = np.asarray(G_solver, dtype=float)
        try:
            Pm = np.array([np.asarray(p.eval(), dtype=float) for p in pts]).T
        except Exception as exc:  # noqa
            ctx.fail("leaf-without-value-after-finite-solve", "round %d: %s" % (r, exc))
            continue
        gscale = 1.0 + float(np.max(np.abs(G_solver)))
        err = float(np.max(np.abs(Pm.T @ Pm - oracles.psd_projection(G_solver))))
        if err > 1e-9 * gscale:  # a factorisation, not a solve: round-off tolerance (DESIGN §9, round 15)
            ctx.fail("leaves-not-latest-solution", "round %d: leaf points do not reproduce the Gram matrix of the latest "
                     "solve (error %.3e)" % (r, err))
        val = oracles.leaf_valuation()
        dim = Pm.shape[0]
        nder = 0
        for label, obj in held:
            try:
                got = obj.eval()
            except Exception as exc:  # noqa
                ctx.fail("held-eval-raises:%s" % type(exc).__name__, "round %d %s: %s" % (r, label, exc))
                continue
            try:
                want, mag = c02.sem_value(obj, val, dim)
            except KeyError:
                # a leaf that a held object is made of is no longer in the registries the valuation is read from
                ctx.fail("leaf-dropped-from-registry", "round %d: %s contains a leaf point / expression that the class registries "
                         "no longer list after the re-solve (its value can no longer follow the latest solution)" % (r, label))
                break
            got = np.asarray(got, dtype=float)
            want = np.asarray(want, dtype=float)
            if got.shape != want.shape or (got.size and float(np.max(np.abs(got - want))) > 1e-9 * (1 + mag)):
                ctx.fail("stale-or-inconsistent-value:%s" % type(obj).__name__,
                         "round %d: %s evaluates to %r but the current leaf values give %r (value of an earlier solve?)"
                         % (r, label, got, want))
                break
            if c02.is_derived(obj):
                nder += 1
        if nder:
            n_derived_checked_rounds += 1
        # -- the dual tables of every leaf function are those of the latest solve ----------------------------------
        from PEPit import Function, Constraint
        for f in Function.list_of_functions:
            if not f.get_is_leaf():
                continue
            try:
                duals = f.get_class_constraints_duals()
                tables = f.tables_of_constraints
            except Exception:  # noqa  (whether the accessor works at all is C17's subject)
                ctx.label("dual-tables:accessor-raises")
                continue
            stale = None
            for key, tab in tables.items():
                if key not in duals or not hasattr(tab, "values") or not hasattr(duals[key], "values"):
                    continue
                tv, dv = tab.values, duals[key].values
                if tv.shape != dv.shape:
                    continue
                for a in range(tv.shape[0]):
                    for b in range(tv.shape[1]):
                        if isinstance(tv[a, b], Constraint):
                            try:
                                now = tv[a, b].eval_dual()
                            except ValueError:
                                continue
                            if abs(float(dv[a, b]) - float(now)) > 1e-12 * (1 + abs(float(now))):
                                stale = (key, a, b, float(dv[a, b]), float(now))
            if stale:
                ctx.fail("dual-table-not-of-latest-solve", "round %d: dual table %r cell (%d,%d) reads %.6g, the constraint of that "
                         "cell has multiplier %.6g after the latest solve" % ((r,) + stale))
                break
            ctx.label("dual-tables:checked")
        # -- certificate of the latest solve ---------------------------------------------------------------------
        cert = oracles.certificate(pep, ob.sent_constraints, ob.sent_lmis)
        if "shape_error" in cert:
            ctx.fail("multiplier-shape", cert["shape_error"])
        elif cert["scale"] > 1e6 or float(np.max(np.abs(G_solver))) > 1e6 * (1 + abs(ob.result)):
            ctx.label("inconclusive:numerically-unbounded-model")
        else:
            tol = k * (cert["scale"] + abs(cert["const"]))
            if cert["max_nonconst"] > tol:
                ctx.fail("certificate-invalid-for-latest-solve", "round %d: identity residual %.3e (tol %.1e)"
                         % (r, cert["max_nonconst"], tol))
            elif opts.get("ret", "dual") == "dual" and abs(ob.result - cert["const"]) > 1e-7 * (1 + abs(cert["const"]) + cert["scale"]):
                ctx.fail("dual-value-not-identity-constant", "round %d: returned %.12g, identity constant %.12g"
                         % (r, ob.result, cert["const"]))
            out["dual"] = cert["const"]
        sent_ids = set(id(c) for c in ob.sent_constraints) | set(id(m) for m in ob.sent_lmis)
        for oid, obj in ever_sent.items():
            if oid in sent_ids:
                continue
            try:
                d = obj.eval_dual()
            except ValueError:
                continue
            ctx.fail("stale-dual-on-unsent-constraint", "round %d: a constraint that the latest solve did not send still "
                     "returns a multiplier (%r) of an earlier solve" % (r, d))
            break
        out["primal"] = float(pep.objective.eval())
        out["gmax"] = float(np.max(np.abs(G_solver)))

    # ---- newly built equivalent models ----------------------------------------------------------------------------
    for r, rnd in enumerate(case["rounds"]):
        out = outcomes[r]
        if out.get("inconclusive"):
            continue
        it2 = prog.Interp()
        it2.run(case["instrs"])
        with prog.quiet():
            for rr in range(r + 1):
                for ed in case["rounds"][rr]["edits"]:
                    apply_edit(it2, ed, None)
                for kind, i, j, w in case["rounds"][rr]["new_held"]:
                    c02.pick(it2.env, kind, i, j, w)
        opts = rnd["opts"]
        sc = oracles.solver_class(opts)
        ob2 = oracles.solve_observed(it2.env, opts)
        if oracles.solver_gave_up(ob2, ctx):
            continue
        if ob2.result is not None and ob2.status != "optimal":
            continue
        if data_size(ob2) != out["size"]:
            ctx.fail("data-sent-differs-from-fresh-model",
                     "round %d sent (constraints, LMIs, LMI entries) = %r, a newly built equivalent model sends %r"
                     % (r, out["size"], data_size(ob2)))
        if (ob2.result is None) != (out["result"] is None) and (str(ob2.status).endswith("_inaccurate") or str(out.get("status")).endswith("_inaccurate")):
            # 'unbounded_inaccurate' / 'infeasible_inaccurate' is the solver giving up, not a certificate: SCS ends that way on a
            # rebuilt model whose re-solved twin it solves to optimality (the two differ only in the order of their variables)
            ctx.label("inconclusive:finite-vs-none-with-an-inaccurate-status")
            continue
        if (ob2.result is None) != (out["result"] is None) and (out.get("init_dropped") or opts.get("solver") == "SCS" and opts.get("drh")):
            # without its initial condition the model is bounded by the generic caps only (optimal values around 1e5): whether
            # a first-order solver ends 'optimal' or 'unbounded' there is not reproducible between two runs
            ctx.label("inconclusive:finite-vs-none-on-a-numerically-unbounded-model")
            continue
        if (ob2.result is None) != (out["result"] is None):
            ctx.fail("finite-vs-none-differs-from-fresh-model", "round %d returned %r, a newly built equivalent model %r"
                     % (r, out["result"], ob2.result))
            continue
        if ob2.result is None:
            continue
        if out.get("init_dropped"):
            # without its initial condition the model is at best bounded by huge caps: the finite numbers solvers
            # return on such badly scaled problems are not reproducible; only finite-vs-None and data sizes are compared
            ctx.label("inconclusive:finite-value-without-initial-condition")
            continue
        if sc == "SCS" and opts.get("drh") and opts.get("ret") == "primal":
            # SCS (first order, ~1e-4) on the badly scaled log-det / trace re-solves: the primal value it returns is
            # not accurate enough to be compared between two runs; only the dual return is compared for SCS
            ctx.label("inconclusive:scs-heuristic-primal-value")
            continue
        k = oracles.TOL[sc]
        scale = 1 + abs(ob2.result)
        # both runs must be accurately solved (small primal-dual gap), otherwise the comparison says nothing about PEPit
        try:
            cert2 = oracles.certificate(it2.env.pep, ob2.sent_constraints, ob2.sent_lmis)
            gap2 = abs(cert2["const"] - float(it2.env.pep.objective.eval())) if "const" in cert2 else 0.0
        except Exception:  # noqa
            gap2 = 0.0
        gap1 = abs(out["dual"] - out["primal"]) if ("dual" in out and "primal" in out) else 0.0
        g2 = float(np.max(np.abs(np.asarray(it2.env.pep.wrapper.get_primal_variables()[0], dtype=float))))
        if max(g2, out.get("gmax", 0.0)) > 1e4 * scale:
            # Gram entries many orders of magnitude above the optimal value: a numerically unbounded model on which the
            # solver's 'optimal' numbers are not reproducible
            ctx.label("inconclusive:numerically-unbounded-model")
            continue
        if not opts.get("drh") and max(gap1, gap2) > k * scale:
            ctx.label("inconclusive:large-duality-gap")
            continue
        thr = 1.01 * opts.get("tol_dr", 1e-4) + 5 * k * scale
        if opts.get("drh") and gap2 > thr:
            # after a heuristic the primal value may sit tol_dimension_reduction below the bound, not more: a larger gap in the
            # run of the REBUILT model means the solver cannot solve this model accurately (seen: Gram entries 5e7 for a value
            # of 7e3), and nothing can be concluded from comparing the two runs
            ctx.label("inconclusive:large-duality-gap")
            continue
        if opts.get("drh") and gap1 > thr and sc != "SCS" and gap1 <= 10 * gap2:
            # the rebuilt model itself ends within a factor 10 of that gap (seen: 0.335 against 1.88 for a value of 5e3 and
            # tol_dimension_reduction 1e-4): the solver does not reach the stated accuracy on this model at all, and the two
            # gaps differ by solver noise, not by anything PEPit keeps between solves
            ctx.label("inconclusive:large-duality-gap")
            continue
        if opts.get("drh") and gap1 > thr and sc != "SCS":
            # the rebuilt model is solved accurately but the re-solved object returns a primal point far below its own bound
            ctx.fail("resolve-primal-far-below-bound-unlike-fresh-model", "round %d: after %s the re-solved object has primal value "
                     "%.9g for a dual bound %.9g (tol_dimension_reduction %g), the rebuilt model has gap %.3g"
                     % (r, opts["drh"], out.get("primal", float("nan")), out.get("dual", float("nan")), opts.get("tol_dr", 1e-4), gap2))
            continue
        tol = (3 if sc != "SCS" else 10) * k * scale * (5 if opts.get("drh") and opts.get("ret") == "primal" else 1)
        if opts.get("drh") and opts.get("ret") == "primal":
            tol += 2.5 * opts.get("tol_dr", 1e-4)
        if abs(ob2.result - out["result"]) > tol:
            ctx.fail("value-differs-from-fresh-model", "round %d returned %.9g, a newly built equivalent model %.9g"
                     % (r, out["result"], ob2.result))
        ctx.observe("value_diff_vs_fresh/scale:" + sc, abs(ob2.result - out["result"]) / scale)
    ctx.label("cls:" + case.get("cls", "?"))
    ctx.nontrivial(n_finite >= 2 and n_derived_checked_rounds >= 2)
