"""Second batch of method families for C09 (same oracle: an independent numpy run of the modelled method on a real member of
the declared class never beats the returned bound).  Each family is a pair (parameter strategy, runner); runners return
(performance normalised by the initial measure, module, function name, kwargs) or None when the drawn member does not
apply (for instance the minimiser could not be located to 1e-12).

The numpy methods are written from the algorithm stated in each example's docstring; line searches and proximal
operators of smooth functions are computed numerically to ~1e-13.
"""
import math

import numpy as np
from hypothesis import strategies as st

from vf import members

UC = "PEPit.examples.unconstrained_convex_minimization"
CC = "PEPit.examples.composite_convex_minimization"
FP = "PEPit.examples.fixed_point_problems"
MI = "PEPit.examples.monotone_inclusions_variational_inequalities"
ST = "PEPit.examples.stochastic_and_randomized_convex_minimization"
AD = "PEPit.examples.adaptive_methods"

PARAMS = {}
RUN = {}


def family(name):
    def deco(cls):
        PARAMS[name] = cls.params
        RUN[name] = cls.run
        return cls
    return deco


def _b():
    from vf.checks import c09
    return c09


def unit(rng, n):
    v = rng.randn(n)
    return v / max(np.linalg.norm(v), 1e-12)


def sf(x):
    return st.sampled_from(x)


# ---- numerical helpers --------------------------------------------------------------------------------------------------
def smooth_consts(m):
    """(mu, L) of a member produced by c09.smooth_member"""
    if hasattr(m, "Q"):
        w = np.linalg.eigvalsh(m.Q)
        return float(w[0]), float(w[-1])
    return float(m.mu), float(m.Lsmooth)


def prox_smooth(m, w, alpha):
    """argmin_x m(x) + |x - w|^2 / (2 alpha) for a differentiable convex member (exact for quadratics)"""
    n = len(w)
    if hasattr(m, "Q"):
        return np.linalg.solve(np.eye(n) + alpha * m.Q, w + alpha * m.Q @ m.c)
    mu, L = smooth_consts(m)
    step = 1.0 / (L + 1.0 / alpha)
    x = w.copy()
    for _ in range(20000):
        g = m.grad(x) + (x - w) / alpha
        nx = x - step * g
        if np.linalg.norm(nx - x) <= 1e-15 * (1 + np.linalg.norm(x)):
            x = nx
            break
        x = nx
    if np.linalg.norm(m.grad(x) + (x - w) / alpha) > 1e-11 * (1 + np.linalg.norm(x)):
        return None
    return x


def nonsmooth_pair(rng, n, kind):
    """a closed convex proper member with an exact prox: returns (value, prox(x, step), in_domain)"""
    if kind == "random2":
        box = members.BoxIndicator(rng, n)
        return (lambda x: 0.0), (lambda x, a: box.project(x)), box
    l1 = members.WeightedL1(rng, n)

    def prox(x, a):
        t = x - l1.c
        return l1.c + np.sign(t) * np.maximum(np.abs(t) - a * l1.w, 0.0)
    return l1.value, prox, l1


def fixed_point_of(T, x, iters=40000, tol=1e-15):
    for _ in range(iters):
        nx = T(x)
        if np.linalg.norm(nx - x) <= tol * (1 + np.linalg.norm(x)):
            return nx
        x = nx
    if np.linalg.norm(T(x) - x) > 1e-12 * (1 + np.linalg.norm(x)):
        return None
    return x


def line_min(m, x, d):
    """t >= 0 minimising the convex differentiable t -> m(x + t d) for a descent direction d (bisection on the derivative);
    None if the minimum is not bracketed"""
    if hasattr(m, "Q"):
        den = float(d @ m.Q @ d)
        if den <= 1e-14:
            return None
        return -float(m.grad(x) @ d) / den

    def dphi(t):
        return float(m.grad(x + t * d) @ d)
    if dphi(0.0) >= 0:
        return 0.0
    lo, hi, k = 0.0, 1.0, 0
    while dphi(hi) < 0:
        lo, hi, k = hi, hi * 2, k + 1
        if k > 60:
            return None
    for _ in range(200):
        mid = 0.5 * (lo + hi)
        if dphi(mid) < 0:
            lo = mid
        else:
            hi = mid
    return 0.5 * (lo + hi)


def smooth(rng, n, L, mu, kind, slack):
    return _b().smooth_member(rng, n, L, mu, kind, slack)


def start_from(rng, xs, n, radii=(1.0, 3.0, 0.3)):
    return xs + unit(rng, n) * rng.choice(list(radii))


def ogm_thetas(N):
    th = [1.0]
    for i in range(N):
        if i < N - 1:
            th.append((1 + math.sqrt(4 * th[-1] ** 2 + 1)) / 2)
        else:
            th.append((1 + math.sqrt(8 * th[-1] ** 2 + 1)) / 2)
    return th


# ---- unconstrained ------------------------------------------------------------------------------------------------------
@family("gd_quadratics")
class GdQuadratics:
    @staticmethod
    def params(draw, L):
        return {"mu": round(L * draw(sf([0.0, 0.1, 0.5])), 6), "L": L, "gamma": draw(sf([1.0, 0.5, 1.5, 2.0])) / L, "n": draw(st.integers(1, 4))}

    @staticmethod
    def run(case, rng):
        p, n, kind, slack = case["params"], case["n_dim"], case["member"], case["slack"]
        L, mu, N = p["L"] / slack, min(p["mu"] * slack, p["L"] / slack), p["n"]
        a = min(max(1.0 / (p["L"] * p["gamma"] * (2 * N + 1)), p["mu"] / p["L"]), 1.0) * p["L"]
        a = min(max(a, mu), L)
        if kind == "extremal":
            eigs = [rng.choice([a, L, mu]) for _ in range(n)]
        else:
            eigs = [rng.uniform(mu, L) for _ in range(n)]
        Q = members.sym_with_spectrum(rng, eigs)
        x0 = unit(rng, n) * rng.choice([1.0, 2.0])
        if kind == "extremal":
            w, V = np.linalg.eigh(Q)
            x0 = V[:, rng.randint(n)]
        x = x0.copy()
        for _ in range(N):
            x = x - p["gamma"] * (Q @ x)
        return 0.5 * float(x @ Q @ x) / float(x0 @ x0), UC, "wc_gradient_descent_quadratics", p


@family("ogm")
class Ogm:
    @staticmethod
    def params(draw, L):
        return {"L": L, "n": draw(st.integers(1, 5))}

    @staticmethod
    def run(case, rng):
        p, n, kind, slack = case["params"], case["n_dim"], case["member"], case["slack"]
        L, N = p["L"], p["n"]
        th = ogm_thetas(N)
        if kind == "extremal" and n == 1:
            m = _b().Huber1D(L / slack, float(rng.choice([1.0 / th[-1] ** 2, 0.5 / th[-1] ** 2, 2.0 / th[-1] ** 2, 0.1, 0.3, 5.0])))
            xs, x0 = np.zeros(1), np.array([1.0])
        else:
            m = smooth(rng, n, L, 0.0, kind, slack)
            xs = m.stationary()
            x0 = start_from(rng, xs, n)
        x, y = x0.copy(), x0.copy()
        for i in range(N):
            xo = x
            x = y - m.grad(y) / L
            y = x + (th[i] - 1) / th[i + 1] * (x - xo) + th[i] / th[i + 1] * (x - y)
        return (m.value(y) - m.value(xs)) / float((x0 - xs) @ (x0 - xs)), UC, "wc_optimized_gradient", p


@family("ogm_g")
class OgmG:
    @staticmethod
    def params(draw, L):
        return {"L": L, "n": draw(st.integers(1, 5))}

    @staticmethod
    def run(case, rng):
        p, n, kind, slack = case["params"], case["n_dim"], case["member"], case["slack"]
        L, N = p["L"], p["n"]
        tt = ogm_thetas(N)
        tt.reverse()
        if kind == "extremal" and n == 1:
            m = _b().Huber1D(L / slack, float(rng.choice([0.05, 0.1, 0.2, 0.4, 0.8, 5.0])))
            xs, x0 = np.zeros(1), np.array([1.0])
        else:
            m = smooth(rng, n, L, 0.0, kind, slack)
            xs = m.stationary()
            x0 = start_from(rng, xs, n)
        f0 = m.value(x0) - m.value(xs)
        if f0 <= 1e-12:
            return None
        x, yn = x0.copy(), x0.copy()
        for i in range(N):
            yo = yn
            yn = x - m.grad(x) / L
            x = yn + (tt[i] - 1) * (2 * tt[i + 1] - 1) / tt[i] / (2 * tt[i] - 1) * (yn - yo) + (2 * tt[i + 1] - 1) / (2 * tt[i] - 1) * (yn - x)
        g = m.grad(x)
        return float(g @ g) / f0, UC, "wc_optimized_gradient_for_gradient", p


@family("triple_momentum")
class TripleMomentum:
    @staticmethod
    def params(draw, L):
        return {"mu": round(L * draw(sf([0.1, 0.3])), 6), "L": L, "n": draw(st.integers(1, 4))}

    @staticmethod
    def run(case, rng):
        p, n, kind, slack = case["params"], case["n_dim"], case["member"], case["slack"]
        mu, L = p["mu"], p["L"]
        m = smooth(rng, n, L, mu, kind, slack)
        xs = m.stationary()
        x0 = start_from(rng, xs, n)
        kappa = L / mu
        rho = 1 - 1 / math.sqrt(kappa)
        al, be, ga, de = (1 + rho) / L, rho ** 2 / (2 - rho), rho ** 2 / ((1 + rho) * (2 - rho)), rho ** 2 / (1 - rho ** 2)
        xo, xn, y = x0.copy(), x0.copy(), x0.copy()
        x = x0
        for _ in range(p["n"]):
            xi = (1 + be) * xn - be * xo - al * m.grad(y)
            y = (1 + ga) * xi - ga * xn
            x = (1 + de) * xi - de * xn
            xn, xo = xi, xn
        return (m.value(x) - m.value(xs)) / float((x0 - xs) @ (x0 - xs)), UC, "wc_triple_momentum", p


@family("agm_strongly_convex")
class AgmSc:
    @staticmethod
    def params(draw, L):
        return {"mu": round(L * draw(sf([0.1, 0.3, 0.01])), 6), "L": L, "n": draw(st.integers(1, 4))}

    @staticmethod
    def run(case, rng):
        p, n, kind, slack = case["params"], case["n_dim"], case["member"], case["slack"]
        mu, L = p["mu"], p["L"]
        m = smooth(rng, n, L, mu, kind, slack)
        xs = m.stationary()
        x0 = start_from(rng, xs, n)
        init = m.value(x0) - m.value(xs) + mu / 2 * float((x0 - xs) @ (x0 - xs))
        k = mu / L
        xn, y = x0.copy(), x0.copy()
        for _ in range(p["n"]):
            xo = xn
            xn = y - m.grad(y) / L
            y = xn + (1 - math.sqrt(k)) / (1 + math.sqrt(k)) * (xn - xo)
        return (m.value(xn) - m.value(xs)) / init, UC, "wc_accelerated_gradient_strongly_convex", p


@family("item")
class Item:
    @staticmethod
    def params(draw, L):
        return {"mu": round(L * draw(sf([0.1, 0.3, 0.01])), 6), "L": L, "n": draw(st.integers(1, 4))}

    @staticmethod
    def run(case, rng):
        p, n, kind, slack = case["params"], case["n_dim"], case["member"], case["slack"]
        mu, L = p["mu"], p["L"]
        m = smooth(rng, n, L, mu, kind, slack)
        xs = m.stationary()
        z0 = start_from(rng, xs, n)
        A_new, q = 0.0, mu / L
        x, z = z0.copy(), z0.copy()
        for _ in range(p["n"]):
            A_old = A_new
            A_new = ((1 + q) * A_old + 2 * (1 + math.sqrt((1 + A_old) * (1 + q * A_old)))) / (1 - q) ** 2
            beta = A_old / (1 - q) / A_new
            delta = 0.5 * ((1 - q) ** 2 * A_new - (1 + q) * A_old) / (1 + q + q * A_old)
            y = (1 - beta) * z + beta * x
            gy = m.grad(y)
            x = y - gy / L
            z = (1 - q * delta) * z + q * delta * y - delta / L * gy
        return float((z - xs) @ (z - xs)) / float((z0 - xs) @ (z0 - xs)), UC, "wc_information_theoretic", p


@family("silver")
class Silver:
    @staticmethod
    def params(draw, L):
        return {"L": L, "n": draw(sf([1, 3, 7, 2, 5, 6]))}

    @staticmethod
    def run(case, rng):
        p, n, kind, slack = case["params"], case["n_dim"], case["member"], case["slack"]
        L, N = p["L"], p["n"]
        # documented: "n ... will be reset to the largest power of 2 minus 1 smaller than the provided value"
        N = 2 ** int(math.floor(math.log2(N + 1) + 1e-12)) - 1
        h = [1 + (1 + math.sqrt(2)) ** (((i & -i).bit_length() - 1) - 1) for i in range(1, N + 1)]
        if kind == "extremal" and n == 1:
            m = _b().Huber1D(L / slack, float(rng.choice([0.02, 0.05, 0.1, 0.2, 0.4, 5.0])))
            xs, x0 = np.zeros(1), np.array([1.0])
        else:
            m = smooth(rng, n, L, 0.0, kind, slack)
            xs = m.stationary()
            x0 = start_from(rng, xs, n)
        x = x0.copy()
        for i in range(N):
            x = x - h[i] / L * m.grad(x)
        return (m.value(x) - m.value(xs)) / float((x0 - xs) @ (x0 - xs)), UC, "wc_gradient_descent_silver_stepsize_convex", p


@family("exact_line_search")
class Els:
    @staticmethod
    def params(draw, L):
        return {"L": L, "mu": round(L * draw(sf([0.1, 0.5])), 6), "n": draw(st.integers(1, 3))}

    @staticmethod
    def run(case, rng):
        p, n, kind, slack = case["params"], case["n_dim"], case["member"], case["slack"]
        mu, L = p["mu"], p["L"]
        m = smooth(rng, n, L, mu, kind, slack)
        xs = m.stationary()
        x0 = start_from(rng, xs, n)
        if kind == "extremal" and hasattr(m, "Q") and n >= 2:
            w, V = np.linalg.eigh(m.Q)
            if w[0] > 0:
                x0 = xs + V[:, 0] / w[0] + rng.choice([-1.0, 1.0]) * V[:, -1] / w[-1]     # the published worst-case start
        f0 = m.value(x0) - m.value(xs)
        if f0 <= 1e-12:
            return None
        x = x0.copy()
        for _ in range(p["n"]):
            g = m.grad(x)
            if np.linalg.norm(g) <= 1e-13:
                break
            t = line_min(m, x, -g)
            if t is None:
                return None
            x = x - t * g
        return (m.value(x) - m.value(xs)) / f0, UC, "wc_gradient_exact_line_search", p


@family("conjugate_gradient")
class Cg:
    @staticmethod
    def params(draw, L):
        return {"L": L, "n": draw(st.integers(1, 3))}

    @staticmethod
    def run(case, rng):
        p, n, kind, slack = case["params"], case["n_dim"], case["member"], case["slack"]
        L = p["L"] / slack
        n = max(n, 2) + (1 if kind != "extremal" else 2)
        eigs = [L, 0.0] + [rng.uniform(0, L) for _ in range(n - 2)] if kind != "random2" else [L] + [L * rng.uniform(0, 1) ** 3 for _ in range(n - 1)]
        m = members.Quadratic(rng, n, eigs)
        xs = m.stationary()
        x0 = start_from(rng, xs, n, (1.0, 2.0))
        x = x0.copy()
        span = [m.grad(x0)]
        for _ in range(p["n"]):
            xo = x
            D = np.array(span).T
            g = m.grad(x)
            t = np.linalg.lstsq(D.T @ m.Q @ D, -D.T @ g, rcond=1e-13)[0]
            x = x + D @ t
            span.append(m.grad(x))
            span.append(xo - x)
        return (m.value(x) - m.value(xs)) / float((x0 - xs) @ (x0 - xs)), UC, "wc_conjugate_gradient", p


@family("inexact_gd")
class InexactGd:
    @staticmethod
    def params(draw, L):
        return {"L": L, "mu": round(L * draw(sf([0.1, 0.5])), 6), "epsilon": draw(sf([0.1, 0.3, 0.5])), "n": draw(st.integers(1, 3))}

    @staticmethod
    def run(case, rng):
        p, n, kind, slack = case["params"], case["n_dim"], case["member"], case["slack"]
        mu, L, eps = p["mu"], p["L"], p["epsilon"]
        m = smooth(rng, n, L, mu, kind, slack)
        xs = m.stationary()
        x0 = start_from(rng, xs, n)
        f0 = m.value(x0) - m.value(xs)
        if f0 <= 1e-12:
            return None
        gamma = 2 / ((1 + eps) * L + (1 - eps) * mu)
        mode = rng.choice(["plus", "minus", "random", "curv"])
        x = x0.copy()
        for _ in range(p["n"]):
            g = m.grad(x)
            gn = np.linalg.norm(g)
            if mode == "plus":
                d = (1 + eps) * g
            elif mode == "minus":
                d = (1 - eps) * g
            elif mode == "curv" and hasattr(m, "Q"):
                # overshoot along stiff directions, undershoot along soft ones (the worst case of the analysis)
                w, V = np.linalg.eigh(m.Q)
                c = V.T @ g
                s = np.where(w >= 0.5 * (w[0] + w[-1]), 1.0, -1.0)
                e = V @ (s * c)
                d = g + eps * gn * e / max(np.linalg.norm(e), 1e-300)
            else:
                d = g + eps * gn * rng.uniform(0, 1) * unit(rng, n)
            assert np.linalg.norm(d - g) <= eps * gn * (1 + 1e-12) + 1e-300
            x = x - gamma * d
        return (m.value(x) - m.value(xs)) / f0, UC, "wc_inexact_gradient_descent", p


def block_member(rng, d, bs, Ls, slack, kind):
    """convex f on R^(d*bs) whose i-th block of coordinates has block-smoothness constant exactly Ls[i] / slack"""
    n = d * bs
    k = rng.randint(1, n + 3)
    A = rng.randint(-2, 3, size=(k, n)).astype(float)
    for i in range(d):
        if not np.any(A[:, i * bs:(i + 1) * bs]):
            A[0, i * bs] = 1.0
    if kind == "extremal":
        A = np.ones((1, n))                                  # rank one: the blocks are as coupled as they can be
    Q = A.T @ A
    S = np.ones(n)
    for i in range(d):
        lam = np.linalg.eigvalsh(Q[i * bs:(i + 1) * bs, i * bs:(i + 1) * bs])[-1]
        S[i * bs:(i + 1) * bs] = math.sqrt(Ls[i] / slack / lam)
    A = A * S[None, :]
    names = ["quad"] * k if kind != "random2" else [list(members.PHIS)[rng.randint(len(members.PHIS))] for _ in range(k)]
    c = members.int_vec(rng, n, -2, 2)

    def value(x):
        t = A @ (x - c)
        return float(sum(members.PHIS[nm][0](ti) for nm, ti in zip(names, t)))

    def grad(x):
        t = A @ (x - c)
        return A.T @ np.array([members.PHIS[nm][1](ti) for nm, ti in zip(names, t)])
    return value, grad, c


@family("cyclic_coordinate_descent")
class Ccd:
    @staticmethod
    def params(draw, L):
        d = draw(sf([2, 3]))
        return {"L": [draw(sf([1.0, 2.0, 0.5])) for _ in range(d)], "n": draw(st.integers(1, 5))}

    @staticmethod
    def run(case, rng):
        p, kind, slack = case["params"], case["member"], case["slack"]
        Ls, d = p["L"], len(p["L"])
        bs = 1 + (case["n_dim"] % 2)
        value, grad, c = block_member(rng, d, bs, Ls, slack, kind)
        n = d * bs
        x0 = start_from(rng, c, n, (1.0, 2.0))
        x = x0.copy()
        for k in range(p["n"]):
            i = k % d
            g = grad(x)
            blk = np.zeros(n)
            blk[i * bs:(i + 1) * bs] = g[i * bs:(i + 1) * bs]
            x = x - blk / Ls[i]
        return (value(x) - value(c)) / float((x0 - c) @ (x0 - c)), UC, "wc_cyclic_coordinate_descent", p


@family("robust_momentum")
class RobustMomentum:
    @staticmethod
    def params(draw, L):
        return {"mu": round(L * draw(sf([0.1, 0.3])), 6), "L": L, "lam": draw(sf([0.2, 0.5, 0.8]))}

    @staticmethod
    def run(case, rng):
        p, n, kind, slack = case["params"], case["n_dim"], case["member"], case["slack"]
        mu, L, lam = p["mu"], p["L"], p["lam"]
        m = smooth(rng, n, L, mu, kind, slack)
        xs = m.stationary()
        fs = m.value(xs)
        x0 = start_from(rng, xs, n)
        x1 = start_from(rng, xs, n) if rng.randint(2) else x0 + 0.1 * rng.randn(n)
        kappa = L / mu
        rho = lam * (1 - 1 / kappa) + (1 - lam) * (1 - 1 / math.sqrt(kappa))
        alpha = kappa * (1 - rho) ** 2 * (1 + rho) / L
        beta = kappa * rho ** 3 / (kappa - 1)
        gamma = rho ** 3 / ((kappa - 1) * (1 - rho) ** 2 * (1 + rho))
        ell = mu ** 2 * (kappa - kappa * rho ** 2 - 1) / (2 * rho * (1 - rho))
        y0 = x1 + gamma * (x1 - x0)
        g0, f0 = m.grad(y0), m.value(y0)
        x2 = x1 + beta * (x1 - x0) - alpha * g0
        y1 = x2 + gamma * (x2 - x1)
        g1, f1 = m.grad(y1), m.value(y1)
        x3 = x2 + beta * (x2 - x1) - alpha * g1
        z1 = (x2 - rho ** 2 * x1) / (1 - rho ** 2)
        z2 = (x3 - rho ** 2 * x2) / (1 - rho ** 2)

        def sq(v):
            return float(v @ v)
        q0 = (L - mu) * (f0 - fs - mu / 2 * sq(y0 - xs)) - 0.5 * sq(g0 - mu * (y0 - xs))
        q1 = (L - mu) * (f1 - fs - mu / 2 * sq(y1 - xs)) - 0.5 * sq(g1 - mu * (y1 - xs))
        init = ell * sq(z1 - xs) + q0
        final = ell * sq(z2 - xs) + q1
        if init <= 1e-9:
            return None
        return final / init, UC, "wc_robust_momentum", p


@family("gd_lc")
class GdLc:
    @staticmethod
    def params(draw, L):
        # small grid: every distinct setting costs one SDP with LMIs
        LM, gl = draw(sf([(1.0, 1.0), (2.0, 1.5)]))
        Lg = 1
        typeM = draw(sf(["gen", "sym", "skew"]))
        return {"mug": 0.1, "Lg": Lg, "typeM": typeM, "muM": round(0.1 * LM, 6) if typeM == "sym" else 0.0,
                "LM": LM, "gamma": gl / (Lg * LM ** 2), "n": draw(st.integers(1, 2))}

    @staticmethod
    def run(case, rng):
        p, n, kind, slack = case["params"], case["n_dim"], case["member"], case["slack"]
        LM, muM, t = p["LM"] / slack, p["muM"], p["typeM"]
        if t == "gen":
            rows = n if rng.randint(2) else max(1, n + rng.randint(-1, 2))
            M = rng.randn(rows, n)
            M = M / max(np.linalg.norm(M, 2), 1e-12) * LM
            if kind == "extremal":
                U, s0, Vt = np.linalg.svd(M, full_matrices=False)
                sv = np.array([LM] + [rng.choice([LM, 0.0, 0.5 * LM]) for _ in range(len(s0) - 1)])
                M = (U * sv) @ Vt
            MT = M.T
        elif t == "sym":
            lo = min(muM * slack, LM)
            M = members.sym_with_spectrum(rng, [rng.choice([lo, LM]) if kind == "extremal" else rng.uniform(lo, LM) for _ in range(n)])
            MT = M
        else:
            if n < 2:
                n = 2
            M = members.skew(rng, n, LM)
            MT = -M
        rows = M.shape[0]
        g = smooth(rng, rows, p["Lg"], p["mug"], "extremal" if kind == "extremal" else "random", slack)
        Lf = p["Lg"] * p["LM"] ** 2

        def gradF(x):
            return MT @ g.grad(M @ x)
        if rng.randint(4):
            xs = rng.randn(n)
            g.c = M @ xs                                     # the minimiser of g is attained on the range of M
        else:
            xs = fixed_point_of(lambda x: x - gradF(x) / Lf, rng.randn(n), iters=3000)   # grad g(M xs) in ker(M^T), possibly non-zero
            if xs is None:
                return None
        x0 = start_from(rng, xs, n, (1.0, 2.0))
        x = x0.copy()
        for _ in range(p["n"]):
            x = x - p["gamma"] * gradF(x)
        return (g.value(M @ x) - g.value(M @ xs)) / float((x0 - xs) @ (x0 - xs)), UC, "wc_gradient_descent_lc", p


@family("accelerated_proximal_point")
class AccProxPoint:
    @staticmethod
    def params(draw, L):
        n = draw(st.integers(1, 4))
        lam = draw(sf([0.5, 1.0, 2.0]))
        shape = draw(sf(["mixed", "increasing", "decreasing", "constant", "docstring"]))
        if shape == "increasing":
            gammas = [round(lam * (i + 1), 6) for i in range(n)]
        elif shape == "decreasing":
            gammas = [round(lam / (i + 1), 6) for i in range(n)]
        elif shape == "constant":
            gammas = [lam] * n
        elif shape == "docstring":
            gammas = [round((i + 1) / 1.1, 6) for i in range(n)]
        else:
            gammas = [lam / (i + 1) if draw(st.booleans()) else lam for i in range(n)]
        return {"A0": draw(sf([1.0, 5.0, 0.5])), "gammas": gammas, "n": n}

    @staticmethod
    def run(case, rng):
        p, n, kind = case["params"], case["n_dim"], case["member"]
        if kind == "extremal" and rng.randint(2):
            # the worst case is attained by c |x| in one dimension for a slope c that depends on the schedule: scan the slope
            best = 0.0
            for c in np.logspace(-2.5, 1.5, 160):
                x0 = 1.0
                init = c * abs(x0) + p["A0"] / 2 * x0 * x0
                x, v, A = x0, x0, p["A0"]
                for i in range(p["n"]):
                    gi = p["gammas"][i]
                    al = (math.sqrt((A * gi) ** 2 + 4 * A * gi) - A * gi) / 2
                    y = (1 - al) * x + al * v
                    x = math.copysign(max(abs(y) - gi * c, 0.0), y)
                    v = v + (x - y) / al
                    A = (1 - al) * A
                best = max(best, c * abs(x) / init)
            return best, UC, "wc_accelerated_proximal_point", p
        if kind == "random2":
            m = members.Quadratic(rng, n, [rng.uniform(0, 3) for _ in range(n)])

            def prox(x, a):
                return np.linalg.solve(np.eye(n) + a * m.Q, x + a * m.Q @ m.c)
            value = m.value
        else:
            value, prox, m = nonsmooth_pair(rng, n, "l1")
            if kind == "extremal":
                m.w = np.full(n, float(rng.choice([0.1, 0.5, 1.0, 3.0])))
        xs = m.stationary()
        x0 = start_from(rng, xs, n, (1.0, 2.0, 5.0))
        init = value(x0) - value(xs) + p["A0"] / 2 * float((x0 - xs) @ (x0 - xs))
        x, v, A = x0.copy(), x0.copy(), p["A0"]
        for i in range(p["n"]):
            gi = p["gammas"][i]
            al = (math.sqrt((A * gi) ** 2 + 4 * A * gi) - A * gi) / 2
            y = (1 - al) * x + al * v
            x = prox(y, gi)
            v = v + (x - y) / al
            A = (1 - al) * A
        return (value(x) - value(xs)) / init, UC, "wc_accelerated_proximal_point", p


# ---- composite ----------------------------------------------------------------------------------------------------------
@family("accelerated_proximal_gradient")
class Fista:
    @staticmethod
    def params(draw, L):
        return {"mu": round(L * draw(sf([0.0, 0.1])), 6), "L": L, "n": draw(st.integers(1, 4))}

    @staticmethod
    def run(case, rng):
        p, n, kind, slack = case["params"], case["n_dim"], case["member"], case["slack"]
        mu, L = p["mu"], p["L"]
        f = smooth(rng, n, L, mu, "extremal" if kind == "extremal" else "random", slack)
        hval, prox, h = nonsmooth_pair(rng, n, kind)
        xs = fixed_point_of(lambda x: prox(x - f.grad(x) / L, 1 / L), rng.randn(n))
        if xs is None:
            return None
        x0 = start_from(rng, xs, n, (1.0, 2.0))
        xn, y = x0.copy(), x0.copy()
        for i in range(p["n"]):
            xo = xn
            xn = prox(y - f.grad(y) / L, 1 / L)
            y = xn + i / (i + 3) * (xn - xo)
        return (f.value(xn) + hval(xn) - f.value(xs) - hval(xs)) / float((x0 - xs) @ (x0 - xs)), CC, "wc_accelerated_proximal_gradient", p


@family("drs_contraction")
class DrsContraction:
    @staticmethod
    def params(draw, L):
        return {"mu": round(L * draw(sf([0.1, 0.5])), 6), "L": L, "alpha": draw(sf([1.0, 3.0, 0.5])), "theta": draw(sf([1.0, 1.5, 0.5])), "n": draw(st.integers(1, 2))}

    @staticmethod
    def run(case, rng):
        p, n, kind, slack = case["params"], case["n_dim"], case["member"], case["slack"]
        f1 = smooth(rng, n, p["L"], p["mu"], "extremal" if kind == "extremal" else "random", slack)
        _, prox2, _h = nonsmooth_pair(rng, n, kind)
        a, th = p["alpha"], p["theta"]

        def T(w):
            x = prox2(w, a)
            y = prox_smooth(f1, 2 * x - w, a)
            return None if y is None else w + th * (y - x)
        w, wp = rng.randn(n) * 2, rng.randn(n) * 2
        d0 = float((w - wp) @ (w - wp))
        for _ in range(p["n"]):
            w, wp = T(w), T(wp)
            if w is None or wp is None:
                return None
        return float((w - wp) @ (w - wp)) / d0, CC, "wc_douglas_rachford_splitting_contraction", p


@family("three_operator_splitting")
class Tos:
    @staticmethod
    def params(draw, L):
        return {"mu1": round(L * draw(sf([0.1, 0.5])), 6), "L1": L, "L3": draw(sf([1.0, 0.5])), "alpha": draw(sf([1.0, 0.5])), "theta": draw(sf([1.0, 1.5, 0.5])),
                "n": draw(st.integers(1, 2))}

    @staticmethod
    def run(case, rng):
        p, n, kind, slack = case["params"], case["n_dim"], case["member"], case["slack"]
        f1 = smooth(rng, n, p["L1"], p["mu1"], "extremal" if kind == "extremal" else "random", slack)
        f3 = smooth(rng, n, p["L3"], 0.0, "extremal" if kind == "extremal" else "random", slack)
        _, prox2, _h = nonsmooth_pair(rng, n, kind)
        a, th = p["alpha"], p["theta"]

        def T(w):
            x = prox2(w, a)
            y = prox_smooth(f1, 2 * x - w - a * f3.grad(x), a)
            return None if y is None else w + th * (y - x)
        w, wp = rng.randn(n) * 2, rng.randn(n) * 2
        d0 = float((w - wp) @ (w - wp))
        for _ in range(p["n"]):
            w, wp = T(w), T(wp)
            if w is None or wp is None:
                return None
        return float((w - wp) @ (w - wp)) / d0, CC, "wc_three_operator_splitting", p


@family("proximal_gradient_quadratics")
class PgdQuadratics:
    @staticmethod
    def params(draw, L):
        return {"L": L, "mu": round(L * draw(sf([0.1, 0.5])), 6), "gamma": draw(sf([1.0, 0.5, 1.5])) / L, "n": draw(st.integers(1, 3))}

    @staticmethod
    def run(case, rng):
        p, n, kind, slack = case["params"], case["n_dim"], case["member"], case["slack"]
        L, mu = p["L"] / slack, min(p["mu"] * slack, p["L"] / slack)
        Q = members.sym_with_spectrum(rng, [rng.choice([mu, L]) if kind == "extremal" else rng.uniform(mu, L) for _ in range(n)])
        _, prox2, _h = nonsmooth_pair(rng, n, kind)
        g = p["gamma"]

        def T(x):
            return prox2(x - g * (Q @ x), g)
        xs = fixed_point_of(T, rng.randn(n))
        if xs is None:
            return None
        x0 = start_from(rng, xs, n, (1.0, 2.0))
        x = x0.copy()
        for _ in range(p["n"]):
            x = T(x)
        return float((x - xs) @ (x - xs)) / float((x0 - xs) @ (x0 - xs)), CC, "wc_proximal_gradient_quadratics", p


# ---- stochastic (exact expectations over the finite sum / the blocks) -----------------------------------------------------
@family("sgd")
class Sgd:
    @staticmethod
    def params(draw, L):
        return {"L": L, "mu": round(L * draw(sf([0.1, 0.5])), 6), "gamma": draw(sf([1.0, 0.5, 0.25])) / L, "v": draw(sf([1.0, 0.5, 2.0])), "R": draw(sf([1.0, 2.0])),
                "n": draw(sf([2, 3, 4]))}

    @staticmethod
    def run(case, rng, overparam=False):
        p, n, kind, slack = case["params"], case["n_dim"], case["member"], case["slack"]
        k = p["n"]
        fs = [smooth(rng, n, p["L"], p["mu"], kind if kind == "extremal" else "random", slack) for _ in range(k)]
        if overparam or rng.randint(2):
            for f in fs:
                f.c = fs[0].c.copy()

        def mean_grad(x):
            return sum(f.grad(x) for f in fs) / k
        xs = fixed_point_of(lambda x: x - mean_grad(x) / p["L"], fs[0].c.astype(float))
        if xs is None:
            return None
        gs = [f.grad(xs) for f in fs]                       # sum to zero
        B = rng.randn(k, n)
        B = B - B.mean(axis=0)                              # linear terms b_i.x with sum b_i = 0 leave x* where it is
        if overparam:
            if max(np.linalg.norm(g) for g in gs) > 1e-12:
                return None
            t, v, R = 0.0, 0.0, 1.0
        else:
            v, R = p["v"], p["R"]
            # choose t with mean |gs_i + t b_i|^2 = v^2
            a = float(np.mean([b @ b for b in B]))
            bq = 2 * float(np.mean([g @ b for g, b in zip(gs, B)]))
            cq = float(np.mean([g @ g for g in gs])) - (v / slack) ** 2
            disc = bq * bq - 4 * a * cq
            if a <= 1e-12 or disc < 0:
                return None
            t = (-bq + math.sqrt(disc)) / (2 * a)
        x0 = xs + unit(rng, n) * R * rng.choice([1.0, 1.0, 0.7])
        perf = float(np.mean([(lambda z: z @ z)(x0 - p["gamma"] * (f.grad(x0) + t * b) - xs) for f, b in zip(fs, B)]))
        if overparam:
            return perf / float((x0 - xs) @ (x0 - xs)), ST, "wc_sgd_overparametrized", p
        return perf, ST, "wc_sgd", p


@family("sgd_overparametrized")
class SgdOver:
    @staticmethod
    def params(draw, L):
        return {"L": L, "mu": round(L * draw(sf([0.1, 0.5])), 6), "gamma": draw(sf([1.0, 0.5, 1.5])) / L, "n": draw(sf([2, 3, 4]))}

    @staticmethod
    def run(case, rng):
        return Sgd.run(case, rng, overparam=True)


@family("rcd_strongly_convex")
class RcdSc:
    @staticmethod
    def params(draw, L):
        return {"L": L, "mu": round(L * draw(sf([0.1, 0.5])), 6), "gamma": draw(sf([1.0, 0.5, 1.5])) / L, "d": draw(sf([2, 3]))}

    @staticmethod
    def run(case, rng):
        p, kind, slack = case["params"], case["member"], case["slack"]
        d = p["d"]
        bs = 1 + (case["n_dim"] % 2)
        n = d * bs
        m = smooth(rng, n, p["L"], p["mu"], kind, slack)
        xs = m.stationary()
        x0 = start_from(rng, xs, n)
        g0 = m.grad(x0)
        tot = 0.0
        for i in range(d):
            blk = np.zeros(n)
            blk[i * bs:(i + 1) * bs] = g0[i * bs:(i + 1) * bs]
            z = x0 - p["gamma"] * blk - xs
            tot += float(z @ z) / d
        return tot / float((x0 - xs) @ (x0 - xs)), ST, "wc_randomized_coordinate_descent_smooth_strongly_convex", p


@family("rcd_convex")
class RcdConvex:
    @staticmethod
    def params(draw, L):
        return {"L": L, "gamma": draw(sf([1.0, 0.5])) / L, "d": draw(sf([2, 3])), "t": draw(sf([1, 2, 5]))}

    @staticmethod
    def run(case, rng):
        p, kind, slack = case["params"], case["member"], case["slack"]
        d, L, g, t = p["d"], p["L"], p["gamma"], p["t"]
        bs = 1 + (case["n_dim"] % 2)
        n = d * bs
        m = smooth(rng, n, L, 0.0, kind, slack)
        xs = m.stationary()
        fs = m.value(xs)

        def phi(k, x):
            return (k * g * L / d + 1) * (m.value(x) - fs) + L / 2 * float((x - xs) @ (x - xs))
        x0 = start_from(rng, xs, n)
        init = phi(t - 1, x0)
        g0 = m.grad(x0)
        tot = 0.0
        for i in range(d):
            blk = np.zeros(n)
            blk[i * bs:(i + 1) * bs] = g0[i * bs:(i + 1) * bs]
            tot += phi(t, x0 - g * blk) / d
        return tot / init, ST, "wc_randomized_coordinate_descent_smooth_convex", p


# ---- fixed point --------------------------------------------------------------------------------------------------------
def nonexp_linear(rng, n, kind, scale=1.0):
    if kind == "extremal" and n >= 2:
        C = members.orth(rng, n)
    elif kind == "random":
        C = members.sym_with_spectrum(rng, [rng.choice([1.0, -1.0, 0.0, 0.5]) for _ in range(n)])
    else:
        C = members.orth(rng, n) * rng.uniform(0.5, 1.0)
    return C * scale


@family("optimal_contractive_halpern")
class Och:
    @staticmethod
    def params(draw, L):
        return {"n": draw(st.integers(1, 5)), "gamma": draw(sf([1.1, 1.5, 2.0]))}

    @staticmethod
    def run(case, rng):
        p, n, kind, slack = case["params"], case["n_dim"], case["member"], case["slack"]
        gm = p["gamma"]
        C = nonexp_linear(rng, n, kind, 1.0 / gm / slack)
        c = members.int_vec(rng, n, -2, 2).astype(float)

        def A(x):
            return c + C @ (x - c)
        x0 = c + unit(rng, n) * rng.choice([1.0, 2.0])
        x = x0.copy()
        for i in range(p["n"]):
            ph = (gm ** (2 * i + 4) - 1) / (gm ** 2 - 1)
            x = x0 / ph + (1 - 1 / ph) * A(x)
        r = x - A(x)
        return float(r @ r) / float((x0 - c) @ (x0 - c)), FP, "wc_optimal_contractive_halpern_iteration", p


@family("km_increasing")
class KmInc:
    @staticmethod
    def params(draw, L):
        return {"n": draw(st.integers(1, 6))}

    @staticmethod
    def run(case, rng):
        p, n, kind = case["params"], case["n_dim"], case["member"]
        C = nonexp_linear(rng, n, kind)
        c = members.int_vec(rng, n, -2, 2).astype(float)

        def A(x):
            return c + C @ (x - c)
        x0 = c + unit(rng, n) * rng.choice([1.0, 2.0])
        x = x0.copy()
        for i in range(p["n"]):
            x = x / (i + 2) + (1 - 1 / (i + 2)) * A(x)
        r = 0.5 * (x - A(x))
        return float(r @ r) / float((x0 - c) @ (x0 - c)), FP, "wc_krasnoselskii_mann_increasing_step_sizes", p


@family("inconsistent_halpern")
class IncHalpern:
    @staticmethod
    def params(draw, L):
        return {"n": draw(st.integers(1, 5))}

    @staticmethod
    def run(case, rng):
        p, n, kind = case["params"], case["n_dim"], case["member"]
        # T x = C x + e with C linear and nonexpansive; the infimal displacement vector is minus the component of e in
        # ker((I - C)^T), attained at any xs with (I - C) xs = e + v
        k = rng.randint(1, n + 1) if kind != "random2" else 0
        R = nonexp_linear(rng, n - k, kind if kind != "random2" else "other") if n - k > 0 else np.zeros((0, 0))
        Bk = np.zeros((n, n))
        Bk[:k, :k] = np.eye(k)
        Bk[k:, k:] = R
        Qb = members.orth(rng, n)
        C = Qb @ Bk @ Qb.T
        e = rng.randn(n) * rng.choice([1.0, 0.2, 3.0])
        U, S, Vt = np.linalg.svd(np.eye(n) - C)
        U0, V0 = U[:, S < 1e-9], Vt[S < 1e-9, :].T
        v = -U0 @ (U0.T @ e)
        xs = np.linalg.pinv(np.eye(n) - C, rcond=1e-9) @ (e + v) + V0 @ rng.randn(V0.shape[1])

        def T(x):
            return C @ x + e
        if np.linalg.norm(xs - T(xs) - v) > 1e-9:
            return None
        x0 = xs + unit(rng, n) * rng.choice([1.0, 2.0])
        x = x0.copy()
        for i in range(p["n"]):
            x = x0 / (i + 2) + (1 - 1 / (i + 2)) * T(x)
        r = x - T(x) - v
        return float(r @ r) / float((x0 - xs) @ (x0 - xs)), FP, "wc_inconsistent_halpern_iteration", p


# ---- monotone inclusions ------------------------------------------------------------------------------------------------
@family("mono_accelerated_proximal_point")
class MonoApp:
    @staticmethod
    def params(draw, L):
        return {"alpha": draw(sf([0.5, 1.0, 2.0])), "n": draw(st.integers(1, 5))}

    @staticmethod
    def run(case, rng):
        p, n, kind = case["params"], case["n_dim"], case["member"]
        a, N = p["alpha"], p["n"]
        if kind == "extremal" and n >= 2:
            A = members.AffineOp(members.skew(rng, n, rng.choice([0.3, 1.0, 3.0, 10.0]) / a), members.int_vec(rng, n, -2, 2))
        else:
            A = _b().monotone_linear(rng, n, rng.choice([0.5, 1.0, 3.0]), 0.0, extremal=False)
        xs = A.c.astype(float)
        J = np.linalg.inv(np.eye(n) + a * A.C)

        def res(z):
            return xs + J @ (z - xs)
        x0 = xs + unit(rng, n) * rng.choice([1.0, 2.0])
        x = [x0.copy() for _ in range(N + 1)]
        y = [x0.copy() for _ in range(N + 1)]
        for i in range(0, N - 1):
            x[i + 1] = res(y[i + 1])
            y[i + 2] = x[i + 1] + i / (i + 2) * (x[i + 1] - x[i]) - i / (i + 2) * (x[i] - y[i])
        x[N] = res(y[N])
        r = x[N] - y[N]
        return float(r @ r) / float((x0 - xs) @ (x0 - xs)), MI, "wc_accelerated_proximal_point", p


def osppm_phi(mu, idx):
    if idx == -1:
        return 0.0
    return ((1 + 2 * mu) ** (2 * idx + 2) - 1) / ((1 + 2 * mu) ** 2 - 1)


@family("optimal_strongly_monotone_ppm")
class OsPpm:
    @staticmethod
    def params(draw, L):
        return {"n": draw(st.integers(1, 5)), "mu": draw(sf([0.05, 0.2, 1.0]))}

    @staticmethod
    def run(case, rng):
        p, n, kind, slack = case["params"], case["n_dim"], case["member"], case["slack"]
        mu = p["mu"]
        if kind == "extremal" and n >= 2:
            C, _ = members.rot_scale(rng, n, mu * slack, rng.choice([0.3, 1.0, 3.0, 10.0]))
            A = members.AffineOp(C, members.int_vec(rng, n, -2, 2))
        else:
            A = _b().monotone_linear(rng, n, rng.choice([0.5, 1.0, 3.0]), mu * slack, extremal=False)
        xs = A.c.astype(float)
        J = np.linalg.inv(np.eye(n) + A.C)
        x0 = xs + unit(rng, n) * rng.choice([1.0, 2.0])
        x, y, yp = x0.copy(), x0.copy(), x0.copy()
        for i in range(p["n"]):
            xn = xs + J @ (y - xs)
            yn = (xn + (osppm_phi(mu, i) - 1) / osppm_phi(mu, i + 1) * (xn - x) - 2 * mu * osppm_phi(mu, i) / osppm_phi(mu, i + 1) * (y - xn)
                  + (1 + 2 * mu) * osppm_phi(mu, i - 1) / osppm_phi(mu, i + 1) * (yp - x))
            x, yp, y = xn, y, yn
        r = yp - x
        return float(r @ r) / float((x0 - xs) @ (x0 - xs)), MI, "wc_optimal_strongly_monotone_proximal_point", p


@family("mono_three_operator_splitting")
class MonoTos:
    @staticmethod
    def params(draw, L):
        return {"L": L, "mu": round(L * draw(sf([0.1, 0.5])), 6), "beta": draw(sf([1.0, 0.5, 2.0])), "alpha": draw(sf([0.9, 0.5])), "theta": draw(sf([1.0, 1.3, 0.7]))}

    @staticmethod
    def run(case, rng):
        p, n, kind, slack = case["params"], case["n_dim"], case["member"], case["slack"]
        a, th, beta = p["alpha"], p["theta"], p["beta"]
        Cf = smooth(rng, n, p["L"], p["mu"], "extremal" if kind == "extremal" else "random", slack)
        # B: beta-cocoercive = gradient of a convex (1/beta)-smooth quadratic (symmetric PSD, norm <= 1/beta)
        Bm = members.sym_with_spectrum(rng, [rng.choice([0.0, 1.0]) / (beta * slack) if kind == "extremal" else rng.uniform(0, 1) / (beta * slack) for _ in range(n)])
        bc = rng.randn(n)
        JB = np.linalg.inv(np.eye(n) + a * Bm)
        # A: monotone linear (skew + PSD) or the subdifferential of a weighted l1 norm
        if kind == "random2":
            _, proxA, _h = nonsmooth_pair(rng, n, "l1")

            def resA(z):
                return proxA(z, a)
        else:
            Aop = _b().monotone_linear(rng, n, rng.choice([0.5, 1.0, 3.0, 10.0]), 0.0, extremal=(kind == "extremal"))
            JA = np.linalg.inv(np.eye(n) + a * Aop.C)

            def resA(z):
                return Aop.c + JA @ (z - Aop.c)

        def T(w):
            x = bc + JB @ (w - bc)
            y = resA(2 * x - w - a * Cf.grad(x))
            return w - th * (x - y)
        w0, w1 = rng.randn(n) * 2, rng.randn(n) * 2
        z0, z1 = T(w0), T(w1)
        return float((z0 - z1) @ (z0 - z1)) / float((w0 - w1) @ (w0 - w1)), MI, "wc_three_operator_splitting", p


# ---- adaptive -----------------------------------------------------------------------------------------------------------
def _polyak_start(m, xs, rng, n, target):
    """a point x0 != xs with (f(x0) - f*) / |f'(x0)|^2 == target, found by bisection along a path between two directions"""
    fs = m.value(xs)

    def ratio(x):
        g = m.grad(x)
        return (m.value(x) - fs) / float(g @ g)
    if hasattr(m, "Q"):
        w, V = np.linalg.eigh(m.Q)
        p1, p2 = xs + V[:, -1], xs + V[:, 0]                # ratio 1/(2L) and 1/(2mu)
    else:
        p1, p2 = xs + unit(rng, n) * 0.05, xs + unit(rng, n) * 5.0
    r1, r2 = ratio(p1), ratio(p2)
    if r1 > r2:
        p1, p2, r1, r2 = p2, p1, r2, r1
    if not (r1 <= target <= r2):
        return None
    if n == 1 and np.sign((p1 - xs)[0]) != np.sign((p2 - xs)[0]):
        return None                                          # the segment would pass through xs

    def path(s):
        return (1 - s) * p1 + s * p2
    lo, hi = 0.0, 1.0
    for _ in range(200):
        mid = 0.5 * (lo + hi)
        z = path(mid)
        if np.linalg.norm(z - xs) < 1e-6:
            return None
        if ratio(z) < target:
            lo = mid
        else:
            hi = mid
    x0 = path(0.5 * (lo + hi))
    if abs(ratio(x0) - target) > 1e-10 * target:
        return None                                          # the ratio is not continuous/monotone along this path
    return x0


@family("polyak_distance")
class PolyakDist:
    @staticmethod
    def params(draw, L):
        mu = round(L * draw(sf([0.1, 0.5])), 6)
        return {"L": L, "mu": mu, "gamma": draw(sf([1.0 / L, 2.0 / (L + mu), 1.0 / mu, 1.5 / L]))}

    @staticmethod
    def run(case, rng):
        p, n, kind, slack = case["params"], case["n_dim"], case["member"], case["slack"]
        m = smooth(rng, max(n, 2) if kind == "extremal" else n, p["L"], p["mu"], kind, slack)
        n = len(m.stationary())
        xs = m.stationary().astype(float)
        x0 = _polyak_start(m, xs, rng, n, p["gamma"] / 2)     # gamma |g0|^2 = 2 (f0 - f*)
        if x0 is None:
            return None
        x1 = x0 - p["gamma"] * m.grad(x0)
        return float((x1 - xs) @ (x1 - xs)) / float((x0 - xs) @ (x0 - xs)), AD, "wc_polyak_steps_in_distance_to_optimum", p


@family("polyak_function_value")
class PolyakFval:
    @staticmethod
    def params(draw, L):
        mu = round(L * draw(sf([0.1, 0.5])), 6)
        return {"L": L, "mu": mu, "gamma": draw(sf([1.0 / L, 2.0 / (L + mu), 1.5 / L]))}

    @staticmethod
    def run(case, rng):
        p, n, kind, slack = case["params"], case["n_dim"], case["member"], case["slack"]
        L, g = p["L"], p["gamma"]
        m = smooth(rng, max(n, 2) if kind == "extremal" else n, L, p["mu"], kind, slack)
        n = len(m.stationary())
        xs = m.stationary().astype(float)
        x0 = _polyak_start(m, xs, rng, n, 1.0 / (2 * L * (2 - L * g)))    # |g0|^2 = 2 L (2 - L gamma) (f0 - f*)
        if x0 is None:
            return None
        x1 = x0 - g * m.grad(x0)
        return (m.value(x1) - m.value(xs)) / (m.value(x0) - m.value(xs)), AD, "wc_polyak_steps_in_function_value", p


# ---- third batch: quadratic-growth / RSI-EB classes, potential functions, splitting in function values, SAGA ----------------
def qg_member(rng, n, L, kind, slack):
    """convex member of QG+(L): L/2 |x - c|_inf^2 (non-smooth, tight on the axes) or an L-smooth convex function"""
    if kind == "extremal":
        m = members.LinfSquared(rng, n)
        m.L = L / slack
        return m
    return smooth(rng, n, L, 0.0, "random", slack)


def _grad(m, x, rng):
    try:
        return m.grad(x, rng)
    except TypeError:
        return m.grad(x)


@family("gd_qg_convex")
class GdQg:
    @staticmethod
    def params(draw, L):
        return {"L": L, "gamma": draw(sf([1.0, 0.5, 0.25])) / L, "n": draw(st.integers(1, 4))}

    @staticmethod
    def run(case, rng):
        p, n, kind, slack = case["params"], case["n_dim"], case["member"], case["slack"]
        m = qg_member(rng, n, p["L"], kind, slack)
        xs = m.stationary().astype(float)
        x0 = start_from(rng, xs, n)
        if kind == "extremal" and rng.randint(2):
            x0 = xs + np.eye(n)[rng.randint(n)] * rng.choice([1.0, -2.0])
        x = x0.copy()
        for _ in range(p["n"]):
            x = x - p["gamma"] * _grad(m, x, rng)
        return (m.value(x) - m.value(xs)) / float((x0 - xs) @ (x0 - xs)), UC, "wc_gradient_descent_qg_convex", p


@family("gd_qg_convex_decreasing")
class GdQgDec:
    @staticmethod
    def params(draw, L):
        return {"L": L, "n": draw(st.integers(1, 5))}

    @staticmethod
    def run(case, rng):
        p, n, kind, slack = case["params"], case["n_dim"], case["member"], case["slack"]
        L = p["L"]
        m = qg_member(rng, n, L, kind, slack)
        xs = m.stationary().astype(float)
        x0 = start_from(rng, xs, n)
        if kind == "extremal" and rng.randint(2):
            x0 = xs + np.eye(n)[rng.randint(n)] * rng.choice([1.0, -2.0])
        x, u = x0.copy(), 1.0
        g = _grad(m, x, rng)
        for _ in range(p["n"]):
            u = u / 2 + math.sqrt((u / 2) ** 2 + 2)
            x = x - g / (L * u)
            g = _grad(m, x, rng)
        return (m.value(x) - m.value(xs)) / float((x0 - xs) @ (x0 - xs)), UC, "wc_gradient_descent_qg_convex_decreasing", p


@family("heavy_ball_qg_convex")
class HbQg:
    @staticmethod
    def params(draw, L):
        return {"L": L, "n": draw(st.integers(1, 5))}

    @staticmethod
    def run(case, rng):
        p, n, kind, slack = case["params"], case["n_dim"], case["member"], case["slack"]
        L = p["L"]
        m = qg_member(rng, n, L, kind, slack)
        xs = m.stationary().astype(float)
        x0 = start_from(rng, xs, n)
        if kind == "extremal" and rng.randint(2):
            x0 = xs + np.eye(n)[rng.randint(n)] * rng.choice([1.0, -2.0])
        xn, xo = x0.copy(), x0.copy()
        for t in range(p["n"]):
            nxt = xn - _grad(m, xn, rng) / (L * (t + 2)) + t / (t + 2) * (xn - xo)
            xo, xn = xn, nxt
        return (m.value(xn) - m.value(xs)) / float((x0 - xs) @ (x0 - xs)), UC, "wc_heavy_ball_momentum_qg_convex", p


@family("subgradient_rsi_eb")
class RsiEb:
    @staticmethod
    def params(draw, L):
        mu = round(L * draw(sf([0.1, 0.5])), 6)
        return {"mu": mu, "L": L, "gamma": draw(sf([1.0, 0.5, 1.5])) * mu / L ** 2, "n": draw(st.integers(1, 4))}

    @staticmethod
    def run(case, rng):
        p, n, kind, slack = case["params"], case["n_dim"], case["member"], case["slack"]
        mu, L = p["mu"], p["L"]
        if kind == "extremal" and n >= 2:
            # rotation-like field: g(x) = C (x - c) with C = mu I + sqrt(L^2 - mu^2) J, <g, x - c> = mu |x - c|^2, |g| = L |x - c|
            C, _ = members.rot_scale(rng, n - (n % 2), mu * slack, math.sqrt(max((L / slack) ** 2 - (mu * slack) ** 2, 0.0)))
            n = C.shape[0]
            c = members.int_vec(rng, n, -2, 2).astype(float)
            x0 = c + unit(rng, n)
            x = x0.copy()
            for _ in range(p["n"]):
                x = x - p["gamma"] * (C @ (x - c))
            return float((x - c) @ (x - c)) / float((x0 - c) @ (x0 - c)), UC, "wc_subgradient_method_rsi_eb", p
        if kind == "random":
            m = members.RsiEbSeparable(rng, n)
            # rescale so that cc + dd = L / slack and cc - dd = mu * slack
            lo, hi = min(mu * slack, L / slack), L / slack
            m.cc, m.dd = (hi + lo) / 2, (hi - lo) / 2
        else:
            m = smooth(rng, n, L, mu, "random", slack)
        xs = m.stationary().astype(float)
        x0 = start_from(rng, xs, n)
        x = x0.copy()
        for _ in range(p["n"]):
            x = x - p["gamma"] * m.grad(x)
        return float((x - xs) @ (x - xs)) / float((x0 - xs) @ (x0 - xs)), UC, "wc_subgradient_method_rsi_eb", p


@family("lyapunov_gd_1")
class Lyap1:
    @staticmethod
    def params(draw, L):
        return {"L": L, "gamma": draw(sf([1.0, 0.5])) / L, "n": draw(sf([0, 1, 3, 10]))}

    @staticmethod
    def run(case, rng):
        p, n, kind, slack = case["params"], case["n_dim"], case["member"], case["slack"]
        L, g, N = p["L"], p["gamma"], p["n"]
        if kind == "extremal" and n == 1:
            m = _b().Huber1D(L / slack, float(rng.choice([0.05, 0.1, 0.3, 0.6, 5.0])))
            xs, xn = np.zeros(1), np.array([1.0])
        else:
            m = smooth(rng, n, L, 0.0, kind, slack)
            xs = m.stationary().astype(float)
            xn = start_from(rng, xs, n)
        fs = m.value(xs)
        x1 = xn - g * m.grad(xn)
        init = N * (m.value(xn) - fs) + L / 2 * float((xn - xs) @ (xn - xs))
        final = (N + 1) * (m.value(x1) - fs) + L / 2 * float((x1 - xs) @ (x1 - xs))
        return ("potential", final, init), "PEPit.examples.potential_functions", "wc_gradient_descent_lyapunov_1", p


@family("lyapunov_gd_2")
class Lyap2:
    @staticmethod
    def params(draw, L):
        return {"L": L, "gamma": draw(sf([1.0, 0.5])) / L, "n": draw(sf([0, 1, 3, 10]))}

    @staticmethod
    def run(case, rng):
        p, n, kind, slack = case["params"], case["n_dim"], case["member"], case["slack"]
        L, g, N = p["L"], p["gamma"], p["n"]
        if kind == "extremal" and n == 1:
            m = _b().Huber1D(L / slack, float(rng.choice([0.05, 0.1, 0.3, 0.6, 5.0])))
            xs, xn = np.zeros(1), np.array([1.0])
        else:
            m = smooth(rng, n, L, 0.0, kind, slack)
            xs = m.stationary().astype(float)
            xn = start_from(rng, xs, n)
        fs = m.value(xs)
        gn = m.grad(xn)
        x1 = xn - g * gn
        g1 = m.grad(x1)
        init = (2 * N + 1) * L * (m.value(xn) - fs) + N * (N + 2) * float(gn @ gn) + L ** 2 * float((xn - xs) @ (xn - xs))
        final = (2 * N + 3) * L * (m.value(x1) - fs) + (N + 1) * (N + 3) * float(g1 @ g1) + L ** 2 * float((x1 - xs) @ (x1 - xs))
        return ("potential", final, init), "PEPit.examples.potential_functions", "wc_gradient_descent_lyapunov_2", p


@family("lyapunov_agm")
class LyapAgm:
    @staticmethod
    def params(draw, L):
        return {"L": L, "gamma": draw(sf([1.0, 0.5])) / L, "lam": draw(sf([0.0, 1.0, 3.0, 10.0]))}

    @staticmethod
    def run(case, rng):
        p, n, kind, slack = case["params"], case["n_dim"], case["member"], case["slack"]
        L, g, lam = p["L"], p["gamma"], p["lam"]
        if kind == "extremal" and n == 1:
            m = _b().Huber1D(L / slack, float(rng.choice([0.05, 0.1, 0.3, 0.6, 5.0])))
            xs = np.zeros(1)
        else:
            m = smooth(rng, n, L, 0.0, kind, slack)
            xs = m.stationary().astype(float)
        xn, zn = start_from(rng, xs, len(xs)), start_from(rng, xs, len(xs))
        fs = m.value(xs)
        l1 = (1 + math.sqrt(4 * lam ** 2 + 1)) / 2
        tau = 1 / l1
        yn = (1 - tau) * xn + tau * zn
        gy = m.grad(yn)
        eta = (l1 ** 2 - lam ** 2) / L
        z1 = zn - eta * gy
        x1 = yn - g * gy
        final = l1 ** 2 * (m.value(x1) - fs) + L / 2 * float((z1 - xs) @ (z1 - xs))
        init = lam ** 2 * (m.value(xn) - fs) + L / 2 * float((zn - xs) @ (zn - xs))
        return ("potential", final, init), "PEPit.examples.potential_functions", "wc_accelerated_gradient_method", p


@family("drs_function_values")
class DrsValues:
    @staticmethod
    def params(draw, L):
        return {"L": L, "alpha": draw(sf([1.0, 0.5, 2.0])), "theta": draw(sf([1.0, 0.5, 1.5])), "n": draw(st.integers(1, 3))}

    @staticmethod
    def run(case, rng):
        p, n, kind, slack = case["params"], case["n_dim"], case["member"], case["slack"]
        a, th, N = p["alpha"], p["theta"], p["n"]
        f2 = smooth(rng, n, p["L"], 0.0, "extremal" if kind == "extremal" else "random", slack)
        v1, prox1, _h = nonsmooth_pair(rng, n, kind)
        L2 = max(smooth_consts(f2)[1], 1e-9)
        xs = fixed_point_of(lambda x: prox1(x - f2.grad(x) / L2, 1 / L2), rng.randn(n))
        if xs is None:
            return None
        Fs = f2.value(xs) + v1(xs)
        w = rng.randn(n) * 2
        x_first, y = None, None
        for i in range(N):
            x = prox_smooth(f2, w, a)
            if x is None:
                return None
            if i == 0:
                x_first = x
            y = prox1(2 * x - w, a)
            w = w + th * (y - x)
        d0 = float((x_first - xs) @ (x_first - xs))
        if d0 <= 1e-12:
            return None
        return (f2.value(y) + v1(y) - Fs) / d0, CC, "wc_douglas_rachford_splitting", p


@family("inexact_gradient_els")
class InexactEls:
    @staticmethod
    def params(draw, L):
        return {"L": L, "mu": round(L * draw(sf([0.1, 0.5])), 6), "epsilon": draw(sf([0.1, 0.3, 0.5])), "n": draw(st.integers(1, 2))}

    @staticmethod
    def run(case, rng):
        p, n, kind, slack = case["params"], case["n_dim"], case["member"], case["slack"]
        mu, L, eps = p["mu"], p["L"], p["epsilon"]
        m = smooth(rng, max(n, 2), L, mu, kind, slack)
        n = max(n, 2)
        xs = m.stationary().astype(float)
        x0 = start_from(rng, xs, n)
        f0 = m.value(x0) - m.value(xs)
        if f0 <= 1e-12:
            return None
        x = x0.copy()
        for _ in range(p["n"]):
            g = m.grad(x)
            gn = np.linalg.norm(g)
            if gn <= 1e-13:
                break
            # a direction within relative error eps of the gradient, then an exact line search along it
            u = unit(rng, n)
            u = u - (u @ g) / gn ** 2 * g
            u = u / max(np.linalg.norm(u), 1e-300)
            r = eps * rng.choice([1.0, 1.0, 0.5])
            d = g * (1 - r ** 2) + r * math.sqrt(1 - r ** 2) * gn * u
            # |d - g|^2 = r^4 |g|^2 + r^2 (1 - r^2) |g|^2 = r^2 |g|^2  (d is the point of the error ball most tilted from g)
            assert abs(np.linalg.norm(d - g) - r * gn) <= 1e-9 * gn
            t = line_min(m, x, -d)
            if t is None:
                return None
            x = x - t * d
        return (m.value(x) - m.value(xs)) / f0, UC, "wc_inexact_gradient_exact_line_search", p


@family("saga")
class Saga:
    @staticmethod
    def params(draw, L):
        return {"L": L, "mu": round(L * draw(sf([0.1, 0.5])), 6), "n": draw(sf([2, 3]))}

    @staticmethod
    def run(case, rng):
        p, n, kind, slack = case["params"], case["n_dim"], case["member"], case["slack"]
        L, mu, k = p["L"], p["mu"], p["n"]
        fn = [smooth(rng, n, L, mu, kind if kind == "extremal" else "random", slack) for _ in range(k)]
        hval, proxh, _h = nonsmooth_pair(rng, n, kind)
        gamma = 1 / 2 / (mu * k + L)
        c = 1 / 2 / gamma / (1 - mu * gamma) / k

        def mean_grad(x):
            return sum(f.grad(x) for f in fn) / k
        xs = fixed_point_of(lambda x: proxh(x - mean_grad(x) / L, 1 / L), rng.randn(n))
        if xs is None:
            return None
        phi = [xs + rng.randn(n) * rng.choice([0.0, 0.3, 1.0]) for _ in range(k)]
        x0 = xs + unit(rng, n) * rng.choice([1.0, 0.3, 2.0])
        g = [fn[i].grad(phi[i]) for i in range(k)]
        fv = [fn[i].value(phi[i]) for i in range(k)]
        gs = [fn[i].grad(xs) for i in range(k)]
        fsv = [fn[i].value(xs) for i in range(k)]
        init = c * float((xs - x0) @ (xs - x0)) + sum((fv[i] - fsv[i] - gs[i] @ (phi[i] - xs)) / k for i in range(k))
        if init <= 1e-12:
            return None
        avg = 0.0
        for i in range(k):
            g0i, f0i = fn[i].grad(x0), fn[i].value(x0)
            w = x0 - gamma * (g0i - g[i]) - gamma * sum(g) / k
            x1 = proxh(w, gamma)
            fin = c * float((x1 - xs) @ (x1 - xs))
            for j in range(k):
                if j != i:
                    fin += (fv[j] - fsv[j] - gs[j] @ (phi[j] - xs)) / k
                else:
                    fin += (f0i - fsv[j] - gs[j] @ (x0 - xs)) / k
            avg += fin / k
        return avg / init, ST, "wc_saga", p


@family("point_saga")
class PointSaga:
    @staticmethod
    def params(draw, L):
        return {"L": L, "mu": round(L * draw(sf([0.1, 0.5])), 6), "n": draw(sf([2, 3]))}

    @staticmethod
    def run(case, rng):
        p, n, kind, slack = case["params"], case["n_dim"], case["member"], case["slack"]
        L, mu, k = p["L"], p["mu"], p["n"]
        fn = [smooth(rng, n, L, mu, kind if kind == "extremal" else "random", slack) for _ in range(k)]
        gamma = math.sqrt((k - 1) ** 2 + 4 * k * L / mu) / 2 / L / k - (1 - 1 / k) / 2 / L
        c = 1 / (mu * L)

        def mean_grad(x):
            return sum(f.grad(x) for f in fn) / k
        xs = fixed_point_of(lambda x: x - mean_grad(x) / L, rng.randn(n))
        if xs is None:
            return None
        gs = [f.grad(xs) for f in fn]
        phi = [gs[i] + rng.randn(n) * rng.choice([0.0, 0.3, 1.0]) for i in range(k)]     # the stored gradients: any vectors
        x0 = xs + unit(rng, n) * rng.choice([1.0, 0.3, 2.0])
        init = float((xs - x0) @ (xs - x0)) + sum(c / k * float((gs[i] - phi[i]) @ (gs[i] - phi[i])) for i in range(k))
        avg = 0.0
        for i in range(k):
            w = x0 + gamma * phi[i] - gamma * sum(phi) / k
            x1 = prox_smooth(fn[i], w, gamma)
            if x1 is None:
                return None
            gx1 = (w - x1) / gamma
            fin = float((xs - x1) @ (xs - x1))
            for j in range(k):
                d = (phi[j] - gs[j]) if j != i else (gs[j] - gx1)
                fin += c / k * float(d @ d)
            avg += fin / k
        return avg / init, ST, "wc_point_saga", p


class _Zero(object):
    """the zero function (L-smooth and convex for every L)"""
    def __init__(self, n):
        self.n = n

    def value(self, x):
        return 0.0

    def grad(self, x, rng=None):
        return np.zeros(self.n)


@family("accelerated_inexact_forward_backward")
class Aifb:
    @staticmethod
    def params(draw, L):
        return {"L": L, "zeta": draw(sf([0.0, 0.5, 0.87])), "n": draw(st.integers(1, 4))}

    @staticmethod
    def run(case, rng):
        p, n, kind, slack = case["params"], case["n_dim"], case["member"], case["slack"]
        L, zeta, N = p["L"], p["zeta"], p["n"]
        f = _Zero(n) if kind == "extremal" else smooth(rng, n, L, 0.0, "random", slack)
        gval, prox, g = nonsmooth_pair(rng, n, "l1")
        if kind == "extremal":
            g.w = np.full(n, float(rng.choice([0.1, 0.3, 1.0, 3.0])) * L)
        gamma = 1.0 / L
        xs = fixed_point_of(lambda x: prox(x - gamma * f.grad(x), gamma), rng.randn(n))
        if xs is None:
            return None
        Fs = f.value(xs) + gval(xs)
        x0 = start_from(rng, xs, n, (1.0, 2.0))
        eta = (1 - zeta ** 2) * gamma
        A = [0.0]
        x, z = x0.copy(), x0.copy()
        push = float(rng.choice([1.0, 1.0, 0.5]))
        for i in range(N):
            A.append(A[i] + (eta + math.sqrt(eta ** 2 + 4 * eta * A[i])) / 2)
            y = x + (1 - A[i] / A[i + 1]) * (z - x)
            gy = f.grad(y)
            c0 = y - gamma * gy
            pt = prox(c0, gamma)                    # exact proximal point: w = pt, v = (c0 - pt) / gamma in dg(pt)
            v = (c0 - pt) / gamma
            budget = (zeta * gamma) ** 2 / 2 * float((v + gy) @ (v + gy))

            def gap(e):
                # primal-dual gap of the pair (pt + e, v): |e|^2 / 2 + gamma (g(pt + e) - g(pt) - <v, e>)
                return 0.5 * float(e @ e) + gamma * (gval(pt + e) - gval(pt) - float(v @ e))
            u = unit(rng, n)
            if rng.randint(2) and np.linalg.norm(v + gy) > 0:
                u = (v + gy) / np.linalg.norm(v + gy) * rng.choice([1.0, -1.0])
            lo, hi = 0.0, 1.0
            if budget > 0:
                while gap(hi * u) <= budget and hi < 1e6:
                    lo, hi = hi, hi * 2
                for _ in range(100):
                    mid = 0.5 * (lo + hi)
                    if gap(mid * u) <= budget:
                        lo = mid
                    else:
                        hi = mid
            e = push * lo * u if budget > 0 else np.zeros(n)
            assert gap(e) <= budget * (1 + 1e-9) + 1e-300
            x = pt + e
            z = z - (A[i + 1] - A[i]) * (v + gy)
        return (f.value(x) + gval(x) - Fs) / float((x0 - xs) @ (x0 - xs)), "PEPit.examples.inexact_proximal_methods", "wc_accelerated_inexact_forward_backward", p


@family("epsilon_subgradient")
class EpsSubgradient:
    @staticmethod
    def params(draw, L):
        return {"M": draw(sf([1, 2])), "n": draw(st.integers(1, 3)), "gamma": draw(sf([0.2, 0.5, 1.0])), "eps": draw(sf([0.0, 0.1, 0.5, 2.0])),
                "R": draw(sf([1, 2]))}

    @staticmethod
    def run(case, rng):
        p, n, kind, slack = case["params"], case["n_dim"], case["member"], case["slack"]
        M, N, g, eps, R = p["M"] / slack, p["n"], p["gamma"], p["eps"], p["R"]
        # f = M |x - c|_2 ; g is an eps-subgradient at x != c iff |g| <= M and M |x - c| - <g, x - c> <= eps
        c = members.int_vec(rng, n, -2, 2).astype(float)
        x = c + unit(rng, n) * R * rng.choice([1.0, 1.0, 0.6])
        best = M * float(np.linalg.norm(x - c))
        tilt = float(rng.choice([1.0, 1.0, 0.5, 0.0]))
        for _ in range(N):
            d = x - c
            r = float(np.linalg.norm(d))
            if r <= 1e-12:
                sub = M * unit(rng, n) * rng.uniform(0, 1)            # any vector of the ball is a subgradient at the kink
            else:
                dh = d / r
                cos_min = max(-1.0, 1.0 - eps / (M * r)) if M > 0 else 1.0
                cos_t = 1.0 - tilt * (1.0 - cos_min)
                w = unit(rng, n)
                w = w - (w @ dh) * dh
                if n == 1 or np.linalg.norm(w) < 1e-9:
                    # one dimension: the eps-subdifferential is the interval [M cos_min, M] times the sign of d
                    sub = M * cos_t * dh
                else:
                    w = w / np.linalg.norm(w)
                    sub = M * (cos_t * dh + math.sqrt(max(0.0, 1 - cos_t ** 2)) * w)
                assert M * r - float(sub @ d) <= eps + 1e-9 and np.linalg.norm(sub) <= M * (1 + 1e-12)
            x = x - g * sub
            best = min(best, M * float(np.linalg.norm(x - c)))
        return best, UC, "wc_epsilon_subgradient_method", p


@family("alternate_projections")
class AlternateProjections:
    @staticmethod
    def params(draw, L):
        return {"n": draw(st.integers(1, 5))}

    @staticmethod
    def run(case, rng):
        p, kind = case["params"], case["member"]
        N = p["n"]
        # two lines of R^2 through a common point xs (the feasibility problem has a solution), at an angle that is scanned:
        # x0 at distance 1 from xs ; performance |x_n - P_{Q1} x_n|^2 with x_n in Q2
        best = 0.0
        angles = np.linspace(0.01, math.pi / 2 - 0.01, 400) if kind != "random2" else rng.uniform(0.01, math.pi / 2, size=40)
        for th in angles:
            u1 = np.array([1.0, 0.0])
            u2 = np.array([math.cos(th), math.sin(th)])
            for phi in (np.linspace(0, math.pi, 24) if kind == "extremal" else rng.uniform(0, math.pi, size=6)):
                x = np.array([math.cos(phi), math.sin(phi)])
                for _ in range(N):
                    y = (x @ u1) * u1
                    x = (y @ u2) * u2
                r = x - (x @ u1) * u1
                best = max(best, float(r @ r))
        return best, "PEPit.examples.low_dimensional_worst_cases_scenarios", "wc_alternate_projections", p
