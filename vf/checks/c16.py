"""C16 - No number without a solution: failures are reported, not fabricated.

Three generated streams
 zoo      : a generated model is built (not solved / solved to None / solved and then extended) and every kind
            of object reachable from it is asked for eval() / eval_dual(); objects that depend on at least one
            leaf without a solution must raise ValueError('... must be solved ...').
 nosol    : models that are unbounded or infeasible *with an independent witness* (a scaling ray of a solved
            homogeneous model whose initial condition is removed; a contradiction ||p||^2 <= -c or e<=-c & e>=c)
            must make solve() return None, under CLARABEL and SCS, and their objects then behave as in `zoo`.
 options  : invalid option values on bounded models must raise.
"""
import numpy as np
from hypothesis import strategies as st

from vf import gen, prog, sem

PROP = "C16"
CASES = {"quick": 2400, "thorough": 150000}
RULE = ("generated method-like models (vf/gen.py) + object zoo {leaf/derived point, inner product, expression with "
        "constant, leaf expression, constraint of each sense, LMI} x {eval, eval_dual} in phases {never solved, "
        "solve returned None, created after a solve}; witnessed unbounded / infeasible models under CLARABEL and "
        "SCS; invalid return_primal_or_dual / dimension_reduction_heuristic values. Non-trivial = a derived object "
        "or constraint/LMI accessor was exercised, or a witnessed unbounded/infeasible model was solved; distinct by "
        "case JSON.")
TRUSTED = ["vf/sem.py", "CLARABEL/SCS report unbounded / infeasible status correctly on witnessed models"]
ASSUMPTIONS = ["MOSEK-path behaviour on unbounded problems is not judged (real MOSEK is not installed)",
               "an unknown wrapper name falling back to cvxpy is documented behaviour, not an invalid option",
               "constant-only objects (no leaf) legitimately evaluate without a solve"]

HOMOGENEOUS = ["SmoothConvexFunction", "SmoothStronglyConvexFunction", "ConvexFunction", "StronglyConvexFunction",
               "MonotoneOperator", "StronglyMonotoneOperator", "CocoerciveOperator", "LipschitzOperator",
               "LipschitzStronglyMonotoneOperator", "SmoothStronglyConvexQuadraticFunction", "RsiEbFunction",
               "CocoerciveStronglyMonotoneOperator", "NonexpansiveOperator", "SymmetricLinearOperator",
               "SkewSymmetricLinearOperator", "LinearOperator"]

INVALID_RET = ["Primal", "both", "", "DUAL ", 1, "d", "du", "ual", "prim", "rima", "l", "dual,primal", "primal_dual",
               "dualprimal", " dual", None, 0, True, ("dual",), ["primal"]]
# option values of the primitive steps that their docstrings say are rejected with a ValueError
INVALID_NOTION = ["Relative", "rel", "", "abs", "Absolute", "relative ", None, 0, 1, "both", "absolute,relative"]
INVALID_OPT = ["PD_gap", "PD_gapIV", "pd_gapi", "PD_gapI ", "", None, 1, "I", "PD_gap1", "gapII"]
INVALID_DRH = ["logdet", "logdetx", "Trace", "tracee", "logdet1.5", "svd", 3, "trac", "race", "t", "logde", "log", "det2",
               "logdet2x", "trace1", "TRACE", 1.5, ["trace"]]


@st.composite
def _case(draw):
    kind = draw(st.sampled_from(["zoo", "zoo", "zoo", "nosol", "options"]))
    if kind == "zoo":
        m = draw(gen.model(max_steps=2))
        phase = draw(st.sampled_from(["before", "before", "after_solve_new_objects"]))
        picks = draw(st.lists(st.tuples(st.sampled_from(["leafp", "derp", "dot", "exprc", "leafe", "pool_e",
                                                         "cons_le", "cons_ge", "cons_eq", "pool_c", "lmi", "pool_m",
                                                         "const_only"]),
                                        st.integers(0, 50), st.integers(0, 50),
                                        st.sampled_from(["eval", "eval_dual"])), min_size=1, max_size=6))
        return {"kind": "zoo", "instrs": m["instrs"], "phase": phase, "picks": [list(p) for p in picks]}
    if kind == "nosol":
        how = draw(st.sampled_from(["unbounded", "unbounded", "infeasible_norm", "infeasible_pair"]))
        if how == "unbounded":
            m = draw(gen.model(max_steps=2, allow_extras=False, allow_composite=False, classes=HOMOGENEOUS))
        else:
            m = draw(gen.model(max_steps=2))
        return {"kind": "nosol", "how": how, "instrs": m["instrs"], "solver": draw(st.sampled_from(["CLARABEL", "SCS"])),
                "c": draw(st.sampled_from([1, 0.5, 3.0])), "pi": draw(st.integers(0, 20)),
                "verbose": draw(st.sampled_from([0, 1])),
                "ret": draw(st.sampled_from(["dual", "primal"])),
                # the same problem object is first solved successfully, then made infeasible and solved again
                "prior_solve": how != "unbounded" and draw(st.booleans())}
    m = draw(gen.model(max_steps=1, allow_extras=False))
    which = draw(st.sampled_from(["ret", "drh", "ret", "drh", "notion", "opt"]))
    val = draw(st.sampled_from({"ret": INVALID_RET, "drh": INVALID_DRH, "notion": INVALID_NOTION, "opt": INVALID_OPT}[which]))
    return {"kind": "options", "instrs": m["instrs"], "which": which, "value": val}


def strategy(tier):
    return _case()


def fixed_cases(tier):
    base = [["func", "SmoothConvexFunction", {"L": 1}, None, False], ["init_point", None], ["stat", 0, None],
            ["gd", 0, 0, 1.0], ["oracle", 0, 3], ["expr", "sqdist", 0, 1], ["cons", "init", 3, "<=", 1, None],
            ["expr", "fdiff", 2, 0], ["metric", 4, None]]
    out = []
    for acc in ("eval", "eval_dual"):
        for what in ("leafp", "derp", "dot", "exprc", "leafe", "pool_e", "cons_le", "cons_ge", "cons_eq", "pool_c",
                     "lmi", "const_only"):
            for phase in ("before", "after_solve_new_objects"):
                out.append({"kind": "zoo", "instrs": base, "phase": phase, "picks": [[what, 0, 1, acc]]})
    for v in INVALID_RET:
        out.append({"kind": "options", "instrs": base, "which": "ret", "value": v})
    for v in INVALID_DRH:
        out.append({"kind": "options", "instrs": base, "which": "drh", "value": v})
    for v in INVALID_NOTION:
        out.append({"kind": "options", "instrs": base, "which": "notion", "value": v})
    for v in INVALID_OPT:
        out.append({"kind": "options", "instrs": base, "which": "opt", "value": v})
    for solver in ("CLARABEL", "SCS"):
        for how in ("unbounded", "infeasible_norm", "infeasible_pair"):
            out.append({"kind": "nosol", "how": how, "instrs": base, "solver": solver, "c": 1, "pi": 0, "verbose": 0,
                        "ret": "dual"})
    return out


# ----------------------------------------------------------------------------------------------------------------
def make_object(env, what, i, j, fresh_leaf=False):
    """Build one zoo object from the environment pools.  Returns (obj, kind, depends_on_unsolved_leaf)."""
    from PEPit import Point, Expression, PSDMatrix
    P, E = env.P, env.E
    if fresh_leaf:
        # objects created after a solve: involve a brand-new leaf
        np_ = Point()
        ne_ = Expression()
    else:
        np_ = P[i % len(P)]
        ne_ = E[i % len(E)] if E else Expression()
    q = P[j % len(P)]
    if what == "leafp":
        return np_, "point"
    if what == "derp":
        return 2 * np_ - 0.5 * q, "point"
    if what == "dot":
        return np_ * q, "expr"
    if what == "exprc":
        return ne_ + np_ ** 2 + 1.5, "expr"
    if what == "leafe":
        return ne_, "expr"
    if what == "pool_e":
        return (E[i % len(E)] if E else ne_) + 0 * ne_ if fresh_leaf else (E[i % len(E)] if E else ne_), "expr"
    if what == "cons_le":
        return (np_ * q <= 1), "cons"
    if what == "cons_ge":
        return (ne_ >= np_ ** 2), "cons"
    if what == "cons_eq":
        return (ne_ == 2), "cons"
    if what == "pool_c":
        if env.C and not fresh_leaf:
            return env.C[i % len(env.C)], "cons"
        return (ne_ <= 0), "cons"
    if what == "lmi":
        return PSDMatrix([[np_ ** 2, ne_], [ne_, 1]]), "lmi"
    if what == "pool_m":
        if env.M and not fresh_leaf:
            return env.M[i % len(env.M)], "lmi"
        return PSDMatrix([[ne_]]), "lmi"
    if what == "const_only":
        return Expression(is_leaf=False, decomposition_dict={1: 2.5}), "expr_const"
    raise ValueError(what)


def has_unsolved_leaf(obj, kind):
    """Independent determination (via decompositions only) whether the object depends on a leaf with no value."""
    def leaves_expr(e):
        pts, exprs = sem.leaves_of_fun(sem.functional(e))
        return pts + exprs
    if kind == "point":
        leaves = list(sem.point_coeffs(obj).keys())
    elif kind in ("expr", "expr_const"):
        leaves = leaves_expr(obj)
    elif kind == "cons":
        leaves = leaves_expr(obj.expression)
    else:
        leaves = []
        for row in obj.matrix_of_expressions:
            for e in row:
                leaves += leaves_expr(e)
    return any(l._value is None for l in leaves), len(leaves)


def expect_must_be_solved(ctx, obj, kind, accessor, tag):
    # asked twice: a failed first attempt must not leave a fabricated value behind
    _expect_must_be_solved(ctx, obj, kind, accessor, tag)
    _expect_must_be_solved(ctx, obj, kind, accessor, tag + ":second-call")


def _expect_must_be_solved(ctx, obj, kind, accessor, tag):
    try:
        if accessor == "eval_dual":
            if kind not in ("cons", "lmi"):
                return
            out = obj.eval_dual()
        else:
            out = obj.eval()
    except ValueError as exc:
        if "must be solved" not in str(exc):
            ctx.fail("wrong-message:%s:%s:%s" % (tag, kind, accessor),
                     "ValueError without the documented 'must be solved' message: %s" % exc)
        return
    except Exception as exc:  # noqa
        ctx.fail("wrong-exception:%s:%s:%s:%s" % (tag, kind, accessor, type(exc).__name__),
                 "%s of a %s without a solution raised %s instead of ValueError('... must be solved ...'): %s"
                 % (accessor, kind, type(exc).__name__, exc))
        return
    ctx.fail("number-without-solution:%s:%s:%s" % (tag, kind, accessor),
             "%s of a %s without a solution returned %r" % (accessor, kind, out))


def check_zoo(case, ctx):
    env = prog.run_program(case["instrs"])
    phase = case["phase"]
    fresh = False
    if phase == "after_solve_new_objects":
        with prog.quiet():
            res = env.pep.solve(verbose=0, solver="CLARABEL")
        if res is None:
            ctx.label("zoo:solve-none")
            phase = "after_none"
        else:
            fresh = True
    ctx.label("zoo:" + phase)
    for what, i, j, accessor in case["picks"]:
        with prog.quiet():
            obj, kind = make_object(env, what, i, j, fresh_leaf=fresh)
        unsolved, nleaves = has_unsolved_leaf(obj, kind)
        if accessor == "eval_dual" and kind in ("cons", "lmi"):
            never_sent = obj._dual_variable_value is None
            if fresh and not never_sent:
                continue
            ctx.label("zoo:dual-accessor")
            ctx.nontrivial(True)
            expect_must_be_solved(ctx, obj, kind, "eval_dual", phase)
            continue
        if accessor == "eval_dual":
            accessor = "eval"
        if not unsolved:
            ctx.label("zoo:no-unsolved-leaf")
            continue
        if what not in ("leafp", "leafe"):
            ctx.nontrivial(True)
        ctx.label("zoo:primal-accessor")
        expect_must_be_solved(ctx, obj, kind, "eval", phase)


def solve(env, **kw):
    with prog.quiet():
        return env.pep.solve(**kw)


def check_nosol(case, ctx):
    how = case["how"]
    instrs = case["instrs"]
    kw = dict(verbose=case["verbose"], solver=case["solver"], return_primal_or_dual=case["ret"])
    if how == "unbounded":
        # 1. witness: the bounded model has a strictly positive value and is homogeneous apart from the
        #    initial condition, so scaling its worst-case instance is feasible with arbitrarily large objective.
        env0 = prog.run_program(instrs)
        tau = solve(env0, verbose=0, solver="CLARABEL")
        if tau is None or not (tau > 1e-4):
            ctx.label("nosol:no-witness")
            return
        init = [c for (w, c) in env0.declared_constraints]
        consts = [abs(sem.functional(c.expression).get(("1",), 0.0))
                  for c in env0.pep._list_of_constraints_sent_to_wrapper if not any(c is d for d in init)]
        if any(v > 0 for v in consts) or env0.pep._list_of_psd_sent_to_wrapper and any(
                abs(sem.functional(e).get(("1",), 0.0)) > 0
                for m in env0.pep._list_of_psd_sent_to_wrapper for row in m.matrix_of_expressions for e in row):
            ctx.label("nosol:not-homogeneous")
            return
        instrs = [ins for ins in instrs if not (ins[0] == "cons" and ins[1] == "init")]
        tag = "unbounded"
    elif how == "infeasible_norm":
        instrs = list(instrs)
        env_probe = prog.run_program(instrs)
        npts = len(env_probe.P)
        ne = len(env_probe.E)
        instrs += [["expr", "sq", case["pi"] % npts], ["cons", "pep", ne, "<=", -case["c"], None]]
        tag = "infeasible"
    else:
        instrs = list(instrs)
        env_probe = prog.run_program(instrs)
        ne = len(env_probe.E)
        instrs += [["new_expr"], ["cons", "pep", ne, "<=", -case["c"], None], ["cons", "pep", ne, ">=", case["c"], None]]
        tag = "infeasible"
    first_sent = []
    if case.get("prior_solve") and how != "unbounded":
        n0 = len(case["instrs"])
        it = prog.Interp()
        it.run(instrs[:n0])
        env = it.env
        try:
            first = solve(env, verbose=0, solver="CLARABEL")
        except Exception as exc:  # noqa
            if type(exc).__name__ == "SolverError":
                ctx.label("nosol:solver-error(inconclusive)")
                return
            raise
        if first is None:
            ctx.label("nosol:prior-solve-none")
            return
        first_sent = list(env.pep._list_of_constraints_sent_to_wrapper) + list(env.pep._list_of_psd_sent_to_wrapper)
        with prog.quiet():
            it.run(instrs[n0:])
        ctx.label("nosol:prior-solve")
        tag = "infeasible-after-a-successful-solve"
    else:
        env = prog.run_program(instrs)
    try:
        res = solve(env, **kw)
    except Exception as exc:  # noqa
        import cvxpy
        if isinstance(exc, cvxpy.error.SolverError):
            ctx.label("nosol:solver-error(inconclusive)")
            return
        raise
    ctx.label("nosol:%s:%s" % (tag, case["solver"]))
    ctx.nontrivial(True)
    if res is not None:
        status = getattr(getattr(env.pep.wrapper, "prob", None), "status", None)
        if status in ("optimal_inaccurate", "unbounded_inaccurate", "infeasible_inaccurate"):
            ctx.label("nosol:inaccurate-status(inconclusive)")
            return
        ctx.fail("number-on-%s-model" % tag, "solve returned %r on a witnessed %s model (solver %s, status %s)"
                 % (res, tag, case["solver"], status))
        return
    # nothing that took part in the earlier successful solve keeps a multiplier (scalar constraints, PEP-level, function-level
    # and class LMIs alike)
    for obj in first_sent:
        kind = "lmi" if type(obj).__name__ == "PSDMatrix" else "cons"
        _expect_must_be_solved(ctx, obj, kind, "eval_dual", "after_none_following_a_solve")
        unsolved, nl = has_unsolved_leaf(obj, kind)
        if nl and not unsolved:
            ctx.fail("leaf-has-value-after-none", "a leaf of a model whose latest solve returned None carries a value")
            break
        if nl:
            _expect_must_be_solved(ctx, obj, kind, "eval", "after_none_following_a_solve")
    # objects of that model have no value
    for what, kind_acc in (("derp", "eval"), ("exprc", "eval"), ("leafp", "eval"), ("pool_c", "eval"),
                           ("pool_c", "eval_dual")):
        with prog.quiet():
            obj, kind = make_object(env, what, case["pi"], case["pi"] + 1)
        unsolved, _ = has_unsolved_leaf(obj, kind)
        if kind_acc == "eval" and not unsolved:
            ctx.fail("leaf-has-value-after-none", "a leaf of a model whose solve returned None carries a value")
            continue
        expect_must_be_solved(ctx, obj, kind, kind_acc, "after_none")


def check_step_option(case, ctx):
    import PEPit.primitive_steps as PS
    from PEPit import PEP
    from PEPit.functions import SmoothStronglyConvexFunction, ConvexFunction
    ctx.label("options:" + case["which"])
    ctx.nontrivial(True)
    with prog.quiet():
        pep = PEP()
        x0 = pep.set_initial_point()
        try:
            if case["which"] == "notion":
                f = pep.declare_function(SmoothStronglyConvexFunction, mu=0.1, L=1.0)
                out = PS.inexact_gradient_step(x0, f, gamma=1.0, epsilon=0.3, notion=case["value"])
            else:
                f = pep.declare_function(ConvexFunction)
                out = PS.inexact_proximal_step(x0, f, 1.0, opt=case["value"])
        except Exception:  # noqa
            return
    ctx.fail("invalid-option-accepted:%s:%r" % (case["which"], case["value"]),
             "%s=%r was accepted by the step instead of being rejected" % (case["which"], case["value"]))


def check_options(case, ctx):
    if case["which"] in ("notion", "opt"):
        return check_step_option(case, ctx)
    env = prog.run_program(case["instrs"])
    # make sure the model is bounded first (otherwise solve returns None before validating anything)
    ok = solve(env, verbose=0, solver="CLARABEL")
    if ok is None:
        ctx.label("options:model-not-bounded")
        return
    env = prog.run_program(case["instrs"])
    kw = dict(verbose=0, solver="CLARABEL")
    if case["which"] == "ret":
        kw["return_primal_or_dual"] = case["value"]
    else:
        kw["dimension_reduction_heuristic"] = case["value"]
    ctx.label("options:" + case["which"])
    ctx.nontrivial(True)
    try:
        res = solve(env, **kw)
    except Exception:  # noqa
        return
    ctx.fail("invalid-option-accepted:%s:%r" % (case["which"], case["value"]),
             "solve(%s=%r) returned %r instead of raising" % (case["which"], case["value"], res))


def check_case(case, ctx):
    if case["kind"] == "zoo":
        check_zoo(case, ctx)
    elif case["kind"] == "nosol":
        check_nosol(case, ctx)
    else:
        check_options(case, ctx)
