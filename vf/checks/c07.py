"""C07 - oracle bookkeeping is coherent for leaf and composite functions.

Generated (stateful, as a list of operations interpreted against the real Function objects): 2-4 leaf functions
(differentiable and not), composites built with the overloaded operators (weights 0, +w/-w cancelling pairs, nested and
scaled sums), a pool of points (leaves, combinations, distinct objects with an equal decomposition), and a sequence of
oracle / gradient / value / __call__ / stationary_point / fixed_point / proximal_step calls on any function at any point.
Invariants after every operation (all comparisons through vf.sem, i.e. by denotation):
 I1  a function has one value per point, across all its recorded samples and all query routes;
 I2  a differentiable function has one gradient per point;
 I3  every recorded sample (x, g, v) of a composite F = sum w_i f_i is the same weighted sum of samples recorded at x for
     its (non-zero weight) leaf terms;
 I4  a declared stationary point has zero gradient, is recorded in both lists, and for composites the term gradients sum to 0;
 I5  two points with the same decomposition are the same point (covered by using denotation as the notion of 'same point').
"""
import itertools

import numpy as np
from hypothesis import strategies as st

from vf import prog, sem

PROP = "C07"
CASES = {"quick": 10000, "thorough": 1500000}
RULE = ("2-4 leaf functions (reuse_gradient True/False), 1-3 composites (weights incl. 0 and cancelling pairs, nested / scaled "
        "sums), 2-5 points incl. combinations and equal-decomposition twins, 1-12 operations.  Non-trivial = a composite was "
        "evaluated after some but not all of its terms, or has a zero / cancelling weight, or mixes differentiable and "
        "non-differentiable terms; distinct by case JSON.")
TRUSTED = ["vf/sem.py"]
ASSUMPTIONS = ["the differentiability flag of a composite is not judged by itself, only through I1-I4"]


@st.composite
def _case(draw):
    nf = draw(st.integers(2, 4))
    diff = [draw(st.booleans()) for _ in range(nf)]
    ncomp = draw(st.integers(1, 3))
    comps = []
    for c in range(ncomp):
        kind = draw(st.sampled_from(["sum", "sum", "cancel", "zero", "scaled", "nested", "neg"]))
        a = draw(st.integers(0, nf - 1))
        b = draw(st.integers(0, nf - 1))
        w1 = draw(st.sampled_from([1, 2, 0.5, -1, 3]))
        w2 = draw(st.sampled_from([1, 2, 0.5, -1, 3]))
        comps.append([kind, a, b, w1, w2, draw(st.integers(0, max(0, c - 1)))])
    npts = draw(st.integers(2, 4))
    extra = [[draw(st.sampled_from(["comb", "twin", "ltwin", "conv"])), draw(st.integers(0, npts - 1)), draw(st.integers(0, npts - 1)),
              draw(st.sampled_from([1, -1, 0.5, 2]))] for _ in range(draw(st.integers(0, 2)))]
    ops = [[draw(st.sampled_from(["oracle", "oracle", "gradient", "value", "call", "stat", "fixed", "prox"])),
            draw(st.integers(0, nf + ncomp - 1)), draw(st.integers(0, npts + len(extra) - 1))]
           for _ in range(draw(st.integers(1, 12)))]
    return {"diff": diff, "comps": comps, "npts": npts, "extra": extra, "ops": ops}


@st.composite
def _flag_case(draw):
    from vf import gen
    from vf.prog import ALL_CLASSES
    cls = draw(st.sampled_from(ALL_CLASSES))
    return {"kind": "flag", "cls": cls, "params": draw(gen.class_params(cls)), "direct": draw(st.booleans()),
            "with_smooth": draw(st.booleans()), "nq": draw(st.integers(2, 3))}


def strategy(tier):
    return st.one_of(_case(), _case(), _case(), _case(), _case(), _flag_case())


def fixed_cases(tier):
    # the composite f0 + f1 - f1 evaluated where f0 is already known ; mixed composite h + f after both terms
    return [{"diff": [True, True], "comps": [["cancel", 0, 1, 1, 1, 0]], "npts": 2, "extra": [], "ops": [["oracle", 0, 0], ["oracle", 2, 0]]},
            {"diff": [False, True], "comps": [["sum", 0, 1, 1, 1, 0]], "npts": 2, "extra": [],
             "ops": [["oracle", 0, 0], ["oracle", 1, 0], ["oracle", 2, 0], ["oracle", 2, 0]]},
            {"diff": [True, False, True], "comps": [["zero", 0, 1, 1, 2, 0], ["nested", 2, 0, 1, 1, 0]], "npts": 2,
             "extra": [["twin", 0, 1, 1]], "ops": [["stat", 3, 0], ["oracle", 4, 2], ["value", 0, 0], ["prox", 3, 1]]}]


def pmeaning(p):
    return tuple(sorted((id(l), round(w, 12)) for l, w in sem.point_coeffs(p).items() if w != 0))


def same_point_fun(a, b):
    return pmeaning(a) == pmeaning(b)


def pfun_equal(a, b):
    """two points denote the same thing"""
    ca = {id(l): w for l, w in sem.point_coeffs(a).items()}
    cb = {id(l): w for l, w in sem.point_coeffs(b).items()}
    return all(abs(ca.get(k, 0.0) - cb.get(k, 0.0)) <= 1e-9 * (1 + abs(ca.get(k, 0.0))) for k in set(ca) | set(cb))


def comb_points(terms):
    acc = {}
    for w, p in terms:
        for l, c in sem.point_coeffs(p).items():
            acc[id(l)] = acc.get(id(l), 0.0) + w * c
    return acc


def check_flag(case, ctx):
    """every shipped class: declared with reuse_gradient=True it is differentiable - one gradient and one sample per point,
    and a sum with a smooth function is differentiable as well"""
    import inspect
    from PEPit import PEP, Point
    from PEPit.functions import SmoothConvexFunction
    cls = case["cls"]
    klass = prog.get_class(cls)
    accepts = "reuse_gradient" in inspect.signature(klass.__init__).parameters
    ctx.label("flag:" + cls)
    with prog.quiet():
        it = prog.Interp()
        pep = it.env.pep
        kw = it.func_kwargs(cls, case["params"])
        if accepts:
            kw["reuse_gradient"] = True
        f = klass(**kw) if case["direct"] else pep.declare_function(klass, **kw)
        # "stationary_point: create a NEW stationary point": two calls declare two minimisers (two distinct points, two
        # stationary samples), except for the quadratic class, which documents a unique one
        if cls != "SmoothStronglyConvexQuadraticFunction":
            kw2 = dict(kw)
            if cls == "SmoothStronglyConvexFunction" and case["nq"] == 2:
                kw2["mu"] = 0                      # the way the examples declare plain L-smooth convex functions
            f2 = klass(**kw2) if case["direct"] else pep.declare_function(klass, **kw2)
            n0 = len(f2.list_of_stationary_points)
            s1 = f2.stationary_point()
            s2 = f2.stationary_point()
            if s1 is s2 or len(f2.list_of_stationary_points) != n0 + 2:
                ctx.fail("second-stationary-point-not-created:%s" % cls, "%s: two calls of stationary_point() gave %s and %d new "
                         "stationary sample(s)" % (cls, "the same point" if s1 is s2 else "two points", len(f2.list_of_stationary_points) - n0))
                return
        if accepts and f.reuse_gradient is not True:
            ctx.fail("declared-differentiable-but-flag-false:%s" % cls, "%s(reuse_gradient=True).reuse_gradient is %r" % (cls, f.reuse_gradient))
            return
        if not f.reuse_gradient:
            ctx.label("flag:class-is-not-differentiable-by-default")
            return
        ctx.nontrivial(True)
        F = (f + pep.declare_function(SmoothConvexFunction, L=1.0)) if case["with_smooth"] else f
        x = Point()
        got = [F.gradient(x) for _ in range(case["nq"])]
        F.oracle(x)
    for g in got[1:]:
        if not pfun_equal(g, got[0]):
            ctx.fail("two-gradients-for-differentiable:class:%s" % cls, "%s declared differentiable returns two different gradients "
                     "at one point%s" % (cls, " (through a sum with a smooth function)" if case["with_smooth"] else ""))
            return
    n_at_x = sum(1 for (xx, _g, _v) in F.list_of_points if pfun_equal(xx, x))
    if n_at_x != 1:
        ctx.fail("several-samples-at-one-point:class:%s" % cls, "%d samples recorded at one point of a differentiable %s" % (n_at_x, cls))


def check_case(case, ctx):
    if case.get("kind") == "flag":
        return check_flag(case, ctx)
    from PEPit import PEP, Point, Expression
    from PEPit.functions import SmoothConvexFunction, ConvexFunction
    import PEPit.primitive_steps as PS
    with prog.quiet():
        pep = PEP()
        leafs = []
        for d in case["diff"]:
            leafs.append(pep.declare_function(SmoothConvexFunction, L=1.0) if d else pep.declare_function(ConvexFunction))
        F = list(leafs)
        tags = set()
        for kind, a, b, w1, w2, prev in case["comps"]:
            fa, fb = leafs[a % len(leafs)], leafs[b % len(leafs)]
            if kind == "sum":
                g = w1 * fa + w2 * fb
            elif kind == "cancel":
                g = fa + w2 * fb - w2 * fb
                tags.add("cancelling-weight")
            elif kind == "zero":
                g = w1 * fa + 0 * fb
                tags.add("zero-weight")
            elif kind == "scaled":
                g = (fa + fb) * w1
            elif kind == "neg":
                g = -(w1 * fa) + w2 * fb + fa * w1 + fb
            else:
                comps_so_far = F[len(leafs):]
                base = comps_so_far[prev % len(comps_so_far)] if comps_so_far else fa
                g = base + w1 * fb
            F.append(g)
        X = [Point() for _ in range(case["npts"])]
        for kind, i, j, w in case["extra"]:
            if kind == "comb":
                X.append(X[i] + w * X[j])
            elif kind == "ltwin":
                X.append(0 * X[j] + X[i])         # the null weight sits in the left operand
            elif kind == "conv":
                lam = 1 if w > 0 else 0           # a convex combination at an end point: (1 - lam) x_j + lam x_i
                X.append((1 - lam) * X[j] + lam * X[i])
            else:
                X.append(X[i] + 0 * X[j])         # a distinct object with the same decomposition as X[i]

    def weights(f):
        """non-zero weights over leaf functions (read from the decomposition, merged by identity)"""
        acc, keep = {}, {}
        for lf, w in f.decomposition_dict.items():
            acc[id(lf)] = acc.get(id(lf), 0.0) + w
            keep[id(lf)] = lf
        return [(keep[k], w) for k, w in acc.items() if w != 0]

    evaluated = {}       # id(leaf function) -> set of point meanings it was evaluated at (by the harness' knowledge)
    nontrivial = False

    def invariants(where):
        for fi, f in enumerate(F):
            trip = list(f.list_of_points)
            # I1 / I2
            for (x1, g1, v1), (x2, g2, v2) in itertools.combinations(trip, 2):
                if pfun_equal(x1, x2):
                    if not sem.fun_equal(sem.functional(v1), sem.functional(v2)):
                        ctx.fail("two-values-at-one-point:%s" % ("leaf" if f.get_is_leaf() else "composite"),
                                 "%s: function %d has two different values recorded at the same point" % (where, fi))
                    if f.reuse_gradient and not pfun_equal(g1, g2):
                        ctx.fail("two-gradients-for-differentiable:%s" % ("leaf" if f.get_is_leaf() else "composite"),
                                 "%s: differentiable function %d has two different gradients recorded at the same point" % (where, fi))
            # I4
            for t in f.list_of_stationary_points:
                if not any(t is u for u in trip):
                    ctx.fail("stationary-sample-not-in-list-of-points", "%s: function %d" % (where, fi))
                if any(abs(w) > 1e-12 for w in sem.point_coeffs(t[1]).values()):
                    ctx.fail("stationary-gradient-not-zero", "%s: function %d has a stationary sample with non-zero gradient" % (where, fi))
            # I3
            if not f.get_is_leaf():
                W = weights(f)
                for (x, g, v) in trip:
                    options = []
                    for lf, w in W:
                        cand = [(gi, vi) for (xi, gi, vi) in lf.list_of_points if pfun_equal(xi, x)]
                        options.append([(w, c) for c in cand])
                    if any(len(o) == 0 for o in options):
                        ctx.fail("composite-sample-without-term-sample",
                                 "%s: composite %d has a sample at a point where one of its non-zero-weight terms has none" % (where, fi))
                        continue
                    ok = False
                    want_g = {id(l): c for l, c in sem.point_coeffs(g).items()}
                    want_v = sem.functional(v)
                    for choice in itertools.islice(itertools.product(*options), 400):
                        sg = comb_points([(w, gi) for (w, (gi, vi)) in choice])
                        if any(abs(sg.get(k, 0.0) - want_g.get(k, 0.0)) > 1e-9 * (1 + abs(want_g.get(k, 0.0))) for k in set(sg) | set(want_g)):
                            continue
                        sv = sem.fun_lincomb([(w, sem.functional(vi)) for (w, (gi, vi)) in choice])
                        if sem.fun_diff(sv, want_v) <= 1e-9 * (1 + sem.fun_scale(want_v)):
                            ok = True
                            break
                    if not ok:
                        ctx.fail("composite-sample-not-weighted-sum-of-term-samples",
                                 "%s: a recorded (point, gradient, value) of composite %d is not the weighted sum of samples "
                                 "recorded at that point for its terms" % (where, fi))

    for k, (op, fi, xi) in enumerate(case["ops"]):
        f = F[fi % len(F)]
        x = X[xi % len(X)]
        where = "after op %d (%s)" % (k, op)
        if not f.get_is_leaf() and not weights(f):
            # the identically-zero function (every weight is or cancels to zero): there is no term to carry a sample;
            # degenerate input, excluded by construction and counted (see DESIGN.md, C07)
            ctx.label("excluded:identically-zero-composite")
            continue
        if not f.get_is_leaf():
            W = weights(f)
            known = [any(pfun_equal(t[0], x) for t in lf.list_of_points) for lf, _w in W]
            if any(known) and not all(known):
                nontrivial = True
            flags = set(lf.reuse_gradient for lf, _w in W)
            if len(flags) == 2:
                nontrivial = True
            if len(W) < len(set(id(q) for q in f.decomposition_dict)):
                nontrivial = True
        # a function with a non-differentiable term of non-zero weight is not differentiable: asked again at a point it
        # already knows, it hands out a NEW subgradient ("may return a new subgradient each time" is how PEPit models that two
        # subgradients at one point can differ; a sum that silently reuses the first one excludes real behaviours)
        terms_now = [(lf, w) for lf, w in (weights(f) if not f.get_is_leaf() else [(f, 1.0)])]
        expect_nondiff = any(not lf.reuse_gradient for lf, _w in terms_now)
        prev_grads = [t[1] for t in f.list_of_points if pfun_equal(t[0], x)] if op in ("oracle", "gradient") else []
        with prog.quiet():
            if op == "oracle":
                g, v = f.oracle(x)
                ret = (g, v)
            elif op == "gradient":
                ret = (f.gradient(x), None)
            elif op == "value":
                ret = (None, f.value(x))
            elif op == "call":
                ret = (None, f(x))
            elif op == "stat":
                xs, g, v = f.stationary_point(return_gradient_and_function_value=True)
                X.append(xs)
                ret = (g, v)
                x = xs
            elif op == "fixed":
                xf, g, v = f.fixed_point()
                X.append(xf)
                ret = (g, v)
                x = xf
                if not pfun_equal(xf, g):
                    ctx.fail("fixed-point-gradient", "fixed_point does not return gradient == point")
            else:
                xn, g, v = PS.proximal_step(x, f, 0.5)
                X.append(xn)
                ret = (g, v)
                x = xn
        if expect_nondiff and prev_grads and op in ("oracle", "gradient") and ret[0] is not None:
            if f.reuse_gradient or any(ret[0] is pg for pg in prev_grads):
                ctx.fail("non-differentiable-function-reuses-its-subgradient:%s" % ("leaf" if f.get_is_leaf() else "composite"),
                         "%s: function %d has a non-differentiable term of non-zero weight but is flagged differentiable / returns an "
                         "already recorded subgradient when asked again at the same point" % (where, fi))
        # what the call returned must be a recorded sample of f at x
        g, v = ret
        rec = [(gi, vi) for (xx, gi, vi) in f.list_of_points if pfun_equal(xx, x)]
        if not rec:
            ctx.fail("returned-sample-not-recorded", "%s: nothing recorded at the queried point" % where)
        else:
            if v is not None and not any(sem.fun_equal(sem.functional(v), sem.functional(vi)) for (_g, vi) in rec):
                ctx.fail("returned-value-not-recorded", "%s: the returned value is not the value recorded at that point" % where)
            if g is not None and not any(pfun_equal(g, gi) for (gi, _v) in rec):
                ctx.fail("returned-gradient-not-recorded", "%s: the returned gradient is not recorded at that point" % where)
        invariants(where)
    for t in tags:
        ctx.label(t)
    if tags:
        nontrivial = True
    ctx.nontrivial(nontrivial)
