"""C15 - block partitions behave as orthogonal coordinate-block projections.

Generated: 1-2 partitions with d in 1..4 blocks, leaf points and combinations (some never decomposed), get_block calls
in random order with repeats, one or two 'solves' (PEP.solve in build-only mode) with further decompositions in between.
Oracle:
  * sum_k block_k(x) denotes x ; asking again returns the identical objects ; a one-block partition is the identity;
  * at each solve every constraint the partition sends is an equality, and the linear span of the sent functionals equals
    the span of { <block_k(x_i), block_l(x_j)> : k != l, x_i, x_j decomposed } computed independently from the blocks'
    decompositions (rank test: all of them and nothing more), with no growth from one solve to the next;
  * concrete side: for a real coordinate partition of R^n (blocks = coordinate projections of generated vectors) every
    sent constraint holds and the blocks are the projections.
"""
import numpy as np
from hypothesis import strategies as st

from vf import prog, sem, record
from vf.checks.c05 import inner_fun

PROP = "C15"
CASES = {"quick": 6000, "thorough": 800000}
RULE = ("1-2 partitions (d = 1..4), 1-5 leaf points, 0-3 combinations, 1-10 get_block calls (random point / block, repeats), 0-2 "
        "combinations decomposed without being kept by the caller, "
        "1-2 build-only solves with extra decompositions in between, real coordinate partition of R^n with n >= d.  "
        "Non-trivial = a partition with d >= 2 and >= 2 decomposed points (one of them a combination or decomposed after the "
        "first solve); distinct by case JSON.")
TRUSTED = ["vf/sem.py", "numpy matrix_rank"]
ASSUMPTIONS = []


@st.composite
def _case(draw):
    nparts = draw(st.sampled_from([1, 1, 2]))
    ds = [draw(st.integers(1, 4)) for _ in range(nparts)]
    npts = draw(st.integers(1, 5))
    combos = [[draw(st.integers(0, npts - 1)), draw(st.integers(0, npts - 1)), draw(st.sampled_from([1, -1, 2, 0.5, -2]))]
              for _ in range(draw(st.integers(0, 3)))]
    total = npts + len(combos)
    calls1 = [[draw(st.integers(0, nparts - 1)), draw(st.integers(0, total - 1)), draw(st.integers(0, 3))]
              for _ in range(draw(st.integers(1, 8)))]
    calls2 = [[draw(st.integers(0, nparts - 1)), draw(st.integers(0, total - 1)), draw(st.integers(0, 3))]
              for _ in range(draw(st.integers(0, 4)))]
    # combinations that are decomposed without being kept by the caller (partition.get_block(x - y, k) in a helper)
    temps = [[draw(st.integers(0, nparts - 1)), draw(st.integers(0, total - 1)), draw(st.integers(0, total - 1)), draw(st.sampled_from([1, -1, 2, 0.5])),
              draw(st.integers(0, 3)), draw(st.integers(0, 1))] for _ in range(draw(st.sampled_from([0, 0, 1, 2])))]
    return {"ds": ds, "npts": npts, "combos": combos, "calls1": calls1, "calls2": calls2, "temps": temps,
            "ctor": [draw(st.sampled_from([False, False, True])) for _ in ds],
            # a block-smooth function on partition 0 evaluated at some points: its class constraints decompose gradients
            # themselves, possibly the only decompositions of that partition before the first solve
            "blocksmooth": draw(st.sampled_from([0, 0, 0, 1, 2])),
            "second_solve": draw(st.booleans()), "vseed": draw(st.integers(0, 10 ** 6)), "zero_grad": draw(st.booleans())}


def strategy(tier):
    return _case()


def fixed_cases(tier):
    return [{"ds": [2], "npts": 2, "combos": [], "calls1": [[0, 0, 0]], "calls2": [], "temps": [[0, 0, 1, -1, 1, 0]], "second_solve": False,
             "vseed": 3, "zero_grad": False},
            {"ds": [2], "npts": 2, "combos": [[0, 1, 2], [0, 1, -1]], "calls1": [[0, 2, 0], [0, 3, 1], [0, 2, 1]],
             "calls2": [[0, 0, 0], [0, 1, 1]], "second_solve": True, "vseed": 1, "zero_grad": True},
            {"ds": [1, 3], "npts": 3, "combos": [], "calls1": [[0, 0, 0], [1, 0, 2], [1, 1, 0], [1, 1, 0]], "calls2": [[1, 2, 1]],
             "second_solve": True, "vseed": 2, "zero_grad": False}]


def reference_relations(partition, dec):
    out = []
    d = partition.get_nb_blocks()
    for a in range(len(dec)):
        for b in range(len(dec)):
            for k in range(d):
                for l in range(d):
                    if k != l:
                        out.append(inner_fun(dec[a][k], dec[b][l]))
    return out


def span_equal(funs_a, funs_b):
    pts = {}
    for fun in funs_a + funs_b:
        a, _b = sem.leaves_of_fun(fun)
        for x in a:
            pts[id(x)] = x
    basis = sem.Basis(list(pts.values()), [])
    A = np.array([basis.vec(f) for f in funs_a]) if funs_a else np.zeros((0, basis.size))
    B = np.array([basis.vec(f) for f in funs_b]) if funs_b else np.zeros((0, basis.size))
    ra = np.linalg.matrix_rank(A) if A.size else 0
    rb = np.linalg.matrix_rank(B) if B.size else 0
    rab = np.linalg.matrix_rank(np.vstack([A, B])) if (A.size or B.size) else 0
    return ra, rb, rab


def check_case(case, ctx):
    from PEPit import PEP, Point, Function
    from PEPit.functions import SmoothConvexFunction
    rng = np.random.RandomState(case["vseed"])
    with prog.quiet():
        pep = PEP()
        from PEPit import BlockPartition
        # both documented ways of creating a partition: through the problem, or with the class constructor
        parts = [(BlockPartition(d=d) if (case.get("ctor") or [])[k:k + 1] == [True] else pep.declare_block_partition(d=d))
                 for k, d in enumerate(case["ds"])]
        f = pep.declare_function(SmoothConvexFunction, L=1.0)
        X = [pep.set_initial_point() for _ in range(case["npts"])]
        for i, j, w in case["combos"]:
            X.append(X[i] + w * X[j])
        if case.get("zero_grad"):
            xs, gs, fs = f.stationary_point(return_gradient_and_function_value=True)
            X.append(gs)           # the null gradient: a non-leaf point with an empty decomposition
        if len(set(id(q) for q in parts)) != len(parts):
            ctx.fail("two-declared-partitions-are-one-object", "two partitions declared separately (d = %r) are the same object: points "
                     "decomposed along one would be tied to points decomposed along the other" % (case["ds"],))
            return
        bs = None
        if case.get("blocksmooth"):
            from PEPit.functions import BlockSmoothConvexFunction
            bs = pep.declare_function(BlockSmoothConvexFunction, partition=parts[0], L=[1.0 + q for q in range(parts[0].get_nb_blocks())])
            for q in range(case["blocksmooth"]):
                bs.gradient(X[q % len(X)])
        pep.set_initial_condition(X[0] ** 2 <= 1)
        pep.set_performance_metric(X[0] ** 2)
    n = max(case["ds"]) + rng.randint(0, 3)
    val = sem.Valuation()
    coords = []
    for d in case["ds"]:
        cuts = sorted(rng.choice(np.arange(1, n), size=d - 1, replace=False).tolist()) if d > 1 else []
        b = [0] + cuts + [n]
        coords.append([list(range(b[k], b[k + 1])) for k in range(d)])
    from PEPit import Point as P_
    for p in P_.list_of_leaf_points:
        val.set(p, rng.randint(-3, 4, size=n).astype(float))

    seen = {}
    tracked = [dict() for _ in parts]       # per partition: id(point) -> (point, [its d blocks]) , through get_block only
    decomposed_after_first = False
    has_combo_decomposed = False

    def track(pi, key, x, allb):
        # what is remembered of a decomposed point is independent of the object itself: its coefficients over the leaves,
        # its concrete value and its blocks (a point the caller did not keep must stay decomposed all the same)
        full = sem.val_point(x, val, dim=n)
        tracked[pi][key] = ({id(leaf): w for leaf, w in sem.point_coeffs(x).items()}, full, x.get_is_leaf(), allb)
        for kb, bq in enumerate(allb[:-1]):
            if bq.get_is_leaf() and not val.has(bq):
                proj = np.zeros(n)
                idx = coords[pi][kb]
                proj[idx] = full[idx]
                val.set(bq, proj)

    def do_calls(calls, phase=0):
        nonlocal has_combo_decomposed
        with prog.quiet():
            for pi, xi, k in calls:
                pi = pi % len(parts)
                part = parts[pi]
                x = X[xi % len(X)]
                kk = k % part.get_nb_blocks()
                blk = part.get_block(x, kk)
                allb = [part.get_block(x, q) for q in range(part.get_nb_blocks())]
                track(pi, id(x), x, allb)
                key = (pi, id(x), kk)
                if key in seen and seen[key] is not blk:
                    ctx.fail("get_block-not-idempotent", "asking twice for the same block of the same point returns two objects")
                seen[key] = blk
                if not x.get_is_leaf():
                    has_combo_decomposed = True
            for t_index, (pi, i, j, w, k, ph) in enumerate(case.get("temps", [])):
                if ph != phase:
                    continue
                pi = pi % len(parts)
                part = parts[pi]
                tmp = X[i % len(X)] + w * X[j % len(X)]
                allb = [part.get_block(tmp, q) for q in range(part.get_nb_blocks())]
                track(pi, ("temp", t_index), tmp, allb)
                has_combo_decomposed = True
                del tmp

    def check_blocks():
        for pi, part in enumerate(parts):
            d = part.get_nb_blocks()
            if len(part.blocks_dict) != len(tracked[pi]) and not (bs is not None and pi == 0):
                ctx.fail("blocks_dict-size", "blocks_dict has %d entries for %d decomposed points" % (len(part.blocks_dict), len(tracked[pi])))
            for want, full, is_leaf, blocks in tracked[pi].values():
                if len(blocks) != d:
                    ctx.fail("wrong-number-of-blocks", "%d blocks for a partition of %d" % (len(blocks), d))
                    continue
                tot = {}
                for bq in blocks:
                    for leaf, w in sem.point_coeffs(bq).items():
                        tot[id(leaf)] = tot.get(id(leaf), 0.0) + w
                keys = set(tot) | set(want)
                if any(abs(tot.get(k_, 0.0) - want.get(k_, 0.0)) > 1e-12 for k_ in keys):
                    ctx.fail("blocks-do-not-sum-to-point", "the blocks obtained for a point do not sum back to that point "
                             "(d = %d, point is %s)" % (d, "a leaf" if is_leaf else "a combination"))
                if d == 1:
                    b0 = {id(leaf): w for leaf, w in sem.point_coeffs(blocks[0]).items()}
                    if any(abs(b0.get(k_, 0.0) - want.get(k_, 0.0)) > 1e-12 for k_ in set(b0) | set(want)):
                        ctx.fail("one-block-partition-not-identity", "the single block of a one-block partition is not the point")
                # concrete: blocks are the coordinate projections
                for kb, bq in enumerate(blocks):
                    proj = np.zeros(n)
                    idx = coords[pi][kb]
                    proj[idx] = full[idx]
                    got = sem.val_point(bq, val, dim=n)
                    if np.max(np.abs(got - proj)) > 1e-9 * (1 + np.max(np.abs(full))):
                        ctx.fail("block-not-coordinate-projection", "block %d of a point is not its coordinate projection for a "
                                 "real coordinate partition" % kb)

    def solve_and_check(tag):
        record.install(build_only=True)
        record.reset_log()
        with prog.quiet():
            pep.solve(verbose=0, solver="CLARABEL")
        sent, _l = record.sent(pep.wrapper.events)
        # what each partition sends = its list_of_constraints (identity) ; functionals via sem
        sizes = []
        for pi, part in enumerate(parts):
            mine = [c for c in sent if any(c is q for q in part.list_of_constraints)]
            if len(mine) != len(part.list_of_constraints):
                ctx.fail("partition-constraints-not-all-sent", "%d of %d partition constraints reached the wrapper"
                         % (len(mine), len(part.list_of_constraints)))
            for c in mine:
                if c.equality_or_inequality != "equality":
                    ctx.fail("partition-constraint-not-equality", "a partition constraint is an inequality")
            got = [sem.functional(c.expression) for c in mine]
            if bs is not None and pi == 0:
                # the class decomposed points on its own: everything the partition holds is a decomposed point
                ref = reference_relations(part, [list(v) for v in part.blocks_dict.values()])
                ctx.label("class-decomposed-points")
            else:
                ref = reference_relations(part, [t[3] for t in tracked[pi].values()])
            ra, rb, rab = span_equal(got, ref)
            if rab > ra:
                ctx.fail("orthogonality-relation-missing:%s" % tag,
                         "the partition imposes relations of rank %d, the orthogonality relations between different blocks of "
                         "all decomposed points have rank %d (joint rank %d): some relation is missing" % (ra, rb, rab))
            if rab > rb:
                ctx.fail("undeclared-relation-imposed:%s" % tag,
                         "the partition imposes a relation that is not an orthogonality between different blocks (ranks %d, %d, %d)"
                         % (ra, rb, rab))
            # concrete: real coordinate projections satisfy everything (not for a partition whose points were decomposed by
            # class code during the solve: those leaves have no concrete value here)
            for c in (mine if not (bs is not None and pi == 0) else []):
                v, mag = sem.val_expr(c.expression, val)
                if abs(v) > 1e-9 * (1 + mag):
                    ctx.fail("real-partition-excluded", "a real coordinate partition violates a partition constraint by %.3e" % v)
                    break
            ndec = len(tracked[pi]) if not (bs is not None and pi == 0) else len(part.blocks_dict)
            d = part.get_nb_blocks()
            sizes.append((len(mine), ndec * ndec * d * (d - 1) // 2))
        return sizes

    do_calls(case["calls1"])
    check_blocks()
    s1 = solve_and_check("first-solve")
    if case.get("second_solve"):
        n_before = [len(t) for t in tracked]
        do_calls(case["calls2"], phase=1)
        decomposed_after_first = any(len(t) > nb for t, nb in zip(tracked, n_before))
        check_blocks()
        s2 = solve_and_check("second-solve")
        for (got, exp) in s2:
            if got > exp:
                ctx.fail("partition-constraints-grow-with-solves", "%d partition constraints sent at the second solve for %d "
                         "distinct relations" % (got, exp))
    big = [p for p, t in zip(parts, tracked) if p.get_nb_blocks() >= 2 and len(t) >= 2]
    ctx.label("second-solve" if case.get("second_solve") else "single-solve")
    if decomposed_after_first:
        ctx.label("decomposed-after-first-solve")
    ctx.nontrivial(bool(big) and (has_combo_decomposed or decomposed_after_first))
