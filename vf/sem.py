"""Independent semantics of PEPit objects.

Nothing here calls PEPit arithmetic or eval(): the functions only *read* `decomposition_dict`
(keys / weights), `Constraint.expression`, `Constraint.equality_or_inequality`, `PSDMatrix.matrix_of_expressions`.

A Point denotes      sum_k w_k * leaf_k                               (leaf_k leaf points)
An Expression denotes sum w_(a,b) <a,b> + sum w_e e + w_1              (a,b leaf points, e leaf expressions)
"""
import numpy as np


class Malformed(Exception):
    """The object's decomposition is not of the documented shape."""


def is_point(obj):
    return type(obj).__name__ == "Point" and hasattr(obj, "decomposition_dict")


def is_expression(obj):
    return type(obj).__name__ == "Expression" and hasattr(obj, "decomposition_dict")


def point_coeffs(p):
    """{leaf point object: weight} with identical keys merged (keys are compared by identity)."""
    out = {}
    keep = {}
    for k, w in p.decomposition_dict.items():
        if not is_point(k) or not k.get_is_leaf():
            raise Malformed("point decomposition key %r is not a leaf point" % (k,))
        out[id(k)] = out.get(id(k), 0.0) + w
        keep[id(k)] = k
    return {keep[i]: w for i, w in out.items()}


def functional(e):
    """Canonical affine functional of (Gram, F): dict with keys
         ('G', a, b)  with id(a) <= id(b)   (mirrored keys merged)
         ('F', leaf_expression)
         ('1',)
       mapping to float coefficients (zero coefficients are kept out)."""
    acc = {}
    objs = {}

    def add(key, w):
        acc[key] = acc.get(key, 0.0) + w

    if e.get_is_leaf():
        items = [(e, 1.0)]
    else:
        items = list(e.decomposition_dict.items())
    for k, w in items:
        if is_expression(k):
            if not k.get_is_leaf():
                raise Malformed("expression key is a non-leaf expression")
            objs[id(k)] = k
            add(("F", id(k)), w)
        elif isinstance(k, tuple):
            if len(k) != 2 or not all(is_point(q) and q.get_is_leaf() for q in k):
                raise Malformed("tuple key is not a pair of leaf points")
            a, b = k
            objs[id(a)] = a
            objs[id(b)] = b
            i, j = (id(a), id(b)) if id(a) <= id(b) else (id(b), id(a))
            add(("G", i, j), w)
        elif isinstance(k, (int, float)) and not isinstance(k, bool) and k == 1:
            add(("1",), w)
        else:
            raise Malformed("unknown expression key %r" % (k,))
    out = {}
    for key, w in acc.items():
        if w == 0:
            continue
        if key[0] == "F":
            out[("F", objs[key[1]])] = float(w)
        elif key[0] == "G":
            out[("G", objs[key[1]], objs[key[2]])] = float(w)
        else:
            out[("1",)] = float(w)
    return out


def _idkey(key):
    return tuple(id(x) if not isinstance(x, str) else x for x in key)


def fun_to_idmap(fun):
    return {_idkey(k): v for k, v in fun.items()}


def fun_scale(fun):
    return max([abs(v) for v in fun.values()] + [0.0])


def fun_diff(f1, f2):
    """max abs coefficient difference of two functionals."""
    a, b = fun_to_idmap(f1), fun_to_idmap(f2)
    d = 0.0
    for k in set(a) | set(b):
        d = max(d, abs(a.get(k, 0.0) - b.get(k, 0.0)))
    return d


def fun_equal(f1, f2, rtol=1e-9):
    s = max(fun_scale(f1), fun_scale(f2), 1e-300)
    return fun_diff(f1, f2) <= rtol * s


def fun_lincomb(terms):
    """sum_k c_k * fun_k for terms = [(c, fun), ...] (functionals keyed by objects)."""
    acc = {}
    keys = {}
    for c, fun in terms:
        for k, v in fun.items():
            ik = _idkey(k)
            keys[ik] = k
            acc[ik] = acc.get(ik, 0.0) + c * v
    return {keys[ik]: v for ik, v in acc.items()}


def fun_is_trivial(fun, tol=0.0):
    return all(abs(v) <= tol for k, v in fun.items() if k != ("1",)) and abs(fun.get(("1",), 0.0)) <= tol


def fun_parallel(f1, f2, positive=True, rtol=1e-9):
    """True iff f1 == c * f2 for some c > 0 (any c != 0 if positive is False)."""
    a, b = fun_to_idmap(f1), fun_to_idmap(f2)
    a = {k: v for k, v in a.items() if v != 0}
    b = {k: v for k, v in b.items() if v != 0}
    if not a and not b:
        return True
    if not a or not b:
        return False
    k0 = max(b, key=lambda k: abs(b[k]))
    if k0 not in a:
        return False
    c = a[k0] / b[k0]
    if c == 0 or (positive and c < 0):
        return False
    s = max(abs(v) for v in a.values())
    for k in set(a) | set(b):
        if abs(a.get(k, 0.0) - c * b.get(k, 0.0)) > rtol * s:
            return False
    return True


# ----------------------------------------------------------------------------------------------------------------
# evaluation under a valuation (dict: leaf object -> ndarray / float), keyed by identity
# ----------------------------------------------------------------------------------------------------------------
class Valuation(object):
    def __init__(self):
        self._v = {}
        self._keep = {}

    def set(self, leaf, value):
        self._v[id(leaf)] = value
        self._keep[id(leaf)] = leaf

    def get(self, leaf):
        return self._v[id(leaf)]

    def has(self, leaf):
        return id(leaf) in self._v

    def leaves(self):
        return list(self._keep.values())


def val_point(p, valuation, dim=None):
    coeffs = point_coeffs(p)
    out = None
    for leaf, w in coeffs.items():
        v = np.asarray(valuation.get(leaf), dtype=float)
        out = w * v if out is None else out + w * v
    if out is None:
        return np.zeros(dim if dim is not None else 0)
    return out


def val_fun(fun, valuation):
    tot = 0.0
    mag = 0.0
    for k, w in fun.items():
        if k[0] == "G":
            t = w * float(np.dot(valuation.get(k[1]), valuation.get(k[2])))
        elif k[0] == "F":
            t = w * float(valuation.get(k[1]))
        else:
            t = w
        tot += t
        mag += abs(t)
    return tot, mag


def val_expr(e, valuation):
    """(value, magnitude) of an expression; magnitude = sum of |terms| (for relative tolerances)."""
    return val_fun(functional(e), valuation)


def leaves_of_fun(fun):
    pts, exprs = {}, {}
    for k in fun:
        if k[0] == "G":
            pts[id(k[1])] = k[1]
            pts[id(k[2])] = k[2]
        elif k[0] == "F":
            exprs[id(k[1])] = k[1]
    return list(pts.values()), list(exprs.values())


# ----------------------------------------------------------------------------------------------------------------
# numeric (index-based) form of functionals, for linear algebra over a fixed list of leaves
# ----------------------------------------------------------------------------------------------------------------
class Basis(object):
    """Fixed ordering of leaf points / leaf expressions -> coordinates of functionals.

    Vector layout: [G_ij for i<=j (row-major upper triangle)] + [F_k] + [const]."""

    def __init__(self, points, exprs):
        self.points = list(points)
        self.exprs = list(exprs)
        self.pi = {id(p): i for i, p in enumerate(self.points)}
        self.ei = {id(e): i for i, e in enumerate(self.exprs)}
        n = len(self.points)
        self.n = n
        self.m = len(self.exprs)
        self.gidx = {}
        c = 0
        for i in range(n):
            for j in range(i, n):
                self.gidx[(i, j)] = c
                c += 1
        self.ng = c
        self.size = c + self.m + 1

    def vec(self, fun):
        v = np.zeros(self.size)
        for k, w in fun.items():
            if k[0] == "G":
                i, j = self.pi[id(k[1])], self.pi[id(k[2])]
                if i > j:
                    i, j = j, i
                v[self.gidx[(i, j)]] += w
            elif k[0] == "F":
                v[self.ng + self.ei[id(k[1])]] += w
            else:
                v[-1] += w
        return v

    def mats(self, fun):
        """(Gw symmetric n x n, Fw, const) with <Gw, G> + Fw.F + const == functional."""
        Gw = np.zeros((self.n, self.n))
        Fw = np.zeros(self.m)
        c = 0.0
        for k, w in fun.items():
            if k[0] == "G":
                i, j = self.pi[id(k[1])], self.pi[id(k[2])]
                Gw[i, j] += w / 2
                Gw[j, i] += w / 2
            elif k[0] == "F":
                Fw[self.ei[id(k[1])]] += w
            else:
                c += w
        return Gw, Fw, c
