"""Executable stand-in for the `mosek` Python package (MOSEK Optimizer API), written from the API documentation.

Only the calls PEPit's MosekWrapper issues are provided.  Every Task call is recorded in `task.calls`.
`optimize` assembles the recorded semidefinite program

      max / min   c^T x + sum_j <Cbar_j, Xbar_j>
      s.t.        l^c_i <= a_i^T x + sum_j <Abar_ij, Xbar_j> <= u^c_i ,   l^x <= x <= u^x ,   Xbar_j >= 0 (PSD)

and solves it with cvxpy/CLARABEL.  Solution items follow MOSEK's documented conventions:
  * barx_j / bars_j are returned as the lower triangle packed column by column;
  * y = s_l^c - s_u^c ; for a maximisation problem s_l^c, s_u^c <= 0 and  Sbar_j = Cbar_j - sum_i y_i Abar_ij  <= 0 (NSD);
    for a minimisation problem s >= 0 and Sbar_j >= 0;
  * variables appended with appendvars are fixed at zero, constraints appended with appendcons are free, until
    bounds are put.
This module is part of the trusted base of the checks that speak about the MOSEK back-end (real MOSEK cannot be
installed in the sandbox).  It self-checks dual feasibility of what it returns (`task.selfcheck`).
"""
import numpy as np

STANDIN = True
BUILD_ONLY = {"on": False}


class Error(Exception):
    pass


class BuildOnly(Exception):
    """Raised by Task.optimize when the harness only wants the emitted task."""


class _Enum(object):
    def __init__(self, name, value):
        self.name, self.value = name, value

    def __repr__(self):
        return self.name

    def __eq__(self, other):
        return isinstance(other, _Enum) and other.name == self.name

    def __hash__(self):
        return hash(self.name)


def _ns(prefix, names):
    ns = type(prefix, (), {})
    for i, n in enumerate(names):
        setattr(ns, n, _Enum("%s.%s" % (prefix, n), i))
    return ns


boundkey = _ns("boundkey", ["lo", "up", "fx", "fr", "ra"])
soltype = _ns("soltype", ["itr", "bas", "itg"])
objsense = _ns("objsense", ["minimize", "maximize"])
feature = _ns("feature", ["pts", "pton"])
streamtype = _ns("streamtype", ["log", "msg", "err", "wrn"])
prosta = _ns("prosta", ["unknown", "prim_and_dual_feas", "prim_feas", "dual_feas", "prim_infeas", "dual_infeas",
                         "prim_and_dual_infeas", "ill_posed", "prim_infeas_or_unbounded"])
solsta = _ns("solsta", ["unknown", "optimal", "prim_feas", "dual_feas", "prim_and_dual_feas", "prim_infeas_cer",
                         "dual_infeas_cer"])


class Env(object):
    def __init__(self, *a, **k):
        pass

    def Task(self, *a, **k):
        return Task(self)

    def checkoutlicense(self, feat):
        return None

    def expirylicenses(self):
        return 365

    def __enter__(self):
        return self

    def __exit__(self, *a):
        return False


def _tril_pack(M):
    n = M.shape[0]
    out = []
    for j in range(n):
        for i in range(j, n):
            out.append(M[i, j])
    return np.array(out, dtype=float)


class Task(object):
    def __init__(self, env=None):
        self.calls = []
        self.bardims = []          # dimension of each PSD matrix variable
        self.numvar = 0
        self.varbound = []         # (bk, bl, bu)
        self.numcon = 0
        self.conbound = []         # (bk, bl, bu)
        self.symmats = []          # (dim, dense symmetric matrix, had_duplicates)
        self.barA = {}             # (i, j) -> dense matrix
        self.A = {}                # (i, j) -> value
        self.c = {}                # j -> value
        self.barC = {}             # j -> dense matrix
        self.sense = objsense.minimize
        self.sol = None
        self.flags = set()
        self.selfcheck = {}

    # ---- recording helper -----------------------------------------------------------------------------------
    def _rec(self, name, *args):
        self.calls.append((name,) + args)

    def set_Stream(self, whichstream, func):
        self._rec("set_Stream", whichstream)

    def solutionsummary(self, whichstream):
        self._rec("solutionsummary", whichstream)

    # ---- building -------------------------------------------------------------------------------------------
    def appendbarvars(self, dims):
        dims = [int(d) for d in dims]
        self._rec("appendbarvars", list(dims))
        for d in dims:
            if d < 0:
                raise Error("appendbarvars: negative dimension")
            self.bardims.append(d)

    def appendvars(self, num):
        num = int(num)
        self._rec("appendvars", num)
        self.numvar += num
        self.varbound += [(boundkey.fx, 0.0, 0.0)] * num     # documented default: fixed at zero

    def getmaxnumvar(self):
        return self.numvar

    def getnumvar(self):
        return self.numvar

    def getnumcon(self):
        return self.numcon

    def getnumbarvar(self):
        return len(self.bardims)

    def putvarbound(self, j, bk, bl, bu):
        j = int(j)
        self._rec("putvarbound", j, bk, float(bl), float(bu))
        if not (0 <= j < self.numvar):
            raise Error("putvarbound: index %d out of range" % j)
        self.varbound[j] = (bk, float(bl), float(bu))

    def appendcons(self, num):
        num = int(num)
        self._rec("appendcons", num)
        self.numcon += num
        self.conbound += [(boundkey.fr, -np.inf, np.inf)] * num     # documented default: free

    def appendsparsesymmat(self, dim, subi, subj, valij):
        dim = int(dim)
        subi = [int(v) for v in np.asarray(subi).ravel()]
        subj = [int(v) for v in np.asarray(subj).ravel()]
        vals = [float(v) for v in np.asarray(valij).ravel()]
        self._rec("appendsparsesymmat", dim, list(subi), list(subj), list(vals))
        if not (len(subi) == len(subj) == len(vals)):
            raise Error("appendsparsesymmat: arrays of different lengths")
        M = np.zeros((dim, dim))
        seen = set()
        dup = False
        for i, j, v in zip(subi, subj, vals):
            if not (0 <= j <= i < dim):
                raise Error("appendsparsesymmat: entry (%d,%d) is not in the lower triangle of a %dx%d matrix"
                            % (i, j, dim, dim))
            if (i, j) in seen:
                dup = True
            seen.add((i, j))
            M[i, j] += v
            if i != j:
                M[j, i] += v
        if dup:
            self.flags.add("duplicate-triplet")
        self.symmats.append((dim, M, dup))
        return len(self.symmats) - 1

    def _comb(self, j, sub, weights, what):
        if not (0 <= j < len(self.bardims)):
            raise Error("%s: matrix variable index %d out of range (%d matrix variables)" % (what, j, len(self.bardims)))
        M = np.zeros((self.bardims[j], self.bardims[j]))
        for s, w in zip(sub, weights):
            s = int(s)
            if not (0 <= s < len(self.symmats)):
                raise Error("%s: symmetric matrix index out of range" % what)
            dim, mat, _ = self.symmats[s]
            if dim != self.bardims[j]:
                raise Error("%s: symmetric matrix of dimension %d used with a matrix variable of dimension %d"
                            % (what, dim, self.bardims[j]))
            M = M + float(w) * mat
        return M

    def putbaraij(self, i, j, sub, weights):
        i, j = int(i), int(j)
        self._rec("putbaraij", i, j, [int(s) for s in sub], [float(w) for w in weights])
        if not (0 <= i < self.numcon):
            raise Error("putbaraij: constraint index %d out of range" % i)
        self.barA[(i, j)] = self._comb(j, sub, weights, "putbaraij")

    def putbarcj(self, j, sub, weights):
        j = int(j)
        self._rec("putbarcj", j, [int(s) for s in sub], [float(w) for w in weights])
        self.barC[j] = self._comb(j, sub, weights, "putbarcj")

    def putaijlist(self, subi, subj, valij):
        subi = [int(v) for v in np.asarray(subi).ravel()]
        subj = [int(v) for v in np.asarray(subj).ravel()]
        vals = [float(v) for v in np.asarray(valij).ravel()]
        self._rec("putaijlist", list(subi), list(subj), list(vals))
        if not (len(subi) == len(subj) == len(vals)):
            raise Error("putaijlist: arrays of different lengths")
        for i, j, v in zip(subi, subj, vals):
            if not (0 <= i < self.numcon) or not (0 <= j < self.numvar):
                raise Error("putaijlist: index (%d,%d) out of range" % (i, j))
            if (i, j) in self.A and "aij-set" not in self.flags:
                self.flags.add("aij-overwritten")
            self.A[(i, j)] = v

    def putaij(self, i, j, v):
        self.putaijlist([i], [j], [v])

    def putconbound(self, i, bk, bl, bu):
        i = int(i)
        self._rec("putconbound", i, bk, float(bl), float(bu))
        if not (0 <= i < self.numcon):
            raise Error("putconbound: index %d out of range" % i)
        self.conbound[i] = (bk, float(bl), float(bu))

    def putclist(self, subj, val):
        subj = [int(v) for v in np.asarray(subj).ravel()]
        vals = [float(v) for v in np.asarray(val).ravel()]
        self._rec("putclist", list(subj), list(vals))
        for j, v in zip(subj, vals):
            if not (0 <= j < self.numvar):
                raise Error("putclist: index %d out of range" % j)
            self.c[j] = v

    def putcj(self, j, v):
        self.putclist([j], [v])

    def putobjsense(self, sense):
        self._rec("putobjsense", sense)
        self.sense = sense

    # ---- solving --------------------------------------------------------------------------------------------
    def optimize(self, **kwargs):
        self._rec("optimize", dict(kwargs))
        if BUILD_ONLY["on"]:
            raise BuildOnly()
        import cvxpy as cp
        x = cp.Variable(self.numvar) if self.numvar else None
        X = [cp.Variable((d, d), symmetric=True) for d in self.bardims]
        cons = []
        for Xj in X:
            cons.append(Xj >> 0)
        obj = 0
        for j, v in self.c.items():
            obj = obj + v * x[j]
        for j, C in self.barC.items():
            obj = obj + cp.sum(cp.multiply(C, X[j]))
        rows = []
        for i in range(self.numcon):
            e = 0
            for (ii, j), v in self.A.items():
                if ii == i:
                    e = e + v * x[j]
            for (ii, j), M in self.barA.items():
                if ii == i:
                    e = e + cp.sum(cp.multiply(M, X[j]))
            rows.append(e)
        con_handles = []
        for i, e in enumerate(rows):
            bk, bl, bu = self.conbound[i]
            lo = up = eq = None
            if isinstance(e, (int, float)):
                e = cp.Constant(float(e))
            if bk == boundkey.fx:
                eq = (e == bl)
                cons.append(eq)
            elif bk == boundkey.up:
                up = (e <= bu)
                cons.append(up)
            elif bk == boundkey.lo:
                lo = (e >= bl)
                cons.append(lo)
            elif bk == boundkey.ra:
                lo = (e >= bl)
                up = (e <= bu)
                cons += [lo, up]
            con_handles.append((lo, up, eq))
        for j in range(self.numvar):
            bk, bl, bu = self.varbound[j]
            if bk == boundkey.fx:
                cons.append(x[j] == bl)
            elif bk == boundkey.up:
                cons.append(x[j] <= bu)
            elif bk == boundkey.lo:
                cons.append(x[j] >= bl)
            elif bk == boundkey.ra:
                cons += [x[j] >= bl, x[j] <= bu]
        maximize = self.sense == objsense.maximize
        prob = cp.Problem(cp.Maximize(obj) if maximize else cp.Minimize(obj), cons)
        try:
            prob.solve(solver="CLARABEL")
        except cp.error.SolverError:
            prob.solve(solver="SCS", eps=1e-8)
        self.cvxpy_status = prob.status
        self.cvxpy_problem = prob           # kept so that the harness can ask for the solver's own residuals
        if prob.status not in ("optimal", "optimal_inaccurate"):
            # no certificate semantics are emulated: mark solution as unknown, values as NaN
            n_tri = [d * (d + 1) // 2 for d in self.bardims]
            self.sol = {"xx": np.full(self.numvar, np.nan), "y": np.full(self.numcon, np.nan),
                        "barx": [np.full(k, np.nan) for k in n_tri], "bars": [np.full(k, np.nan) for k in n_tri],
                        "prosta": prosta.dual_infeas if prob.status.startswith("unbounded") else prosta.prim_infeas}
            return None
        xx = np.array(x.value, dtype=float).ravel() if x is not None else np.zeros(0)
        y = np.zeros(self.numcon)
        for i, (lo, up, eq) in enumerate(con_handles):
            # MOSEK: y = s_l - s_u.  In the Lagrangian  obj - y_i (row_i - bound)  for max  /  obj + ... for min
            if maximize:
                if eq is not None:
                    y[i] = float(eq.dual_value)
                if up is not None:
                    y[i] += float(up.dual_value)         # s_u = -mu <= 0  ->  y += mu
                if lo is not None:
                    y[i] -= float(lo.dual_value)         # s_l = -mu' <= 0 ->  y -= mu'
            else:
                if eq is not None:
                    y[i] = -float(eq.dual_value)
                if up is not None:
                    y[i] -= float(up.dual_value)         # s_u = mu >= 0
                if lo is not None:
                    y[i] += float(lo.dual_value)         # s_l = mu' >= 0
        barx = [np.array(Xj.value, dtype=float) for Xj in X]
        bars = []
        for j, d in enumerate(self.bardims):
            S = np.array(self.barC.get(j, np.zeros((d, d))), dtype=float).copy()
            for (i, jj), M in self.barA.items():
                if jj == j:
                    S = S - y[i] * M
            bars.append(S)
        # self-check of the documented dual feasibility: S_j NSD (max) / PSD (min), A^T y + s^x = c on free variables
        worst = 0.0
        for S in bars:
            if S.size:
                ev = np.linalg.eigvalsh((S + S.T) / 2)
                worst = max(worst, float(np.max(ev)) if maximize else float(-np.min(ev)))
        lin = 0.0
        for j in range(self.numvar):
            if self.varbound[j][0] == boundkey.fr:
                r = self.c.get(j, 0.0) - sum(y[i] * v for (i, jj), v in self.A.items() if jj == j)
                lin = max(lin, abs(r))
        self.selfcheck = {"bars_sign_violation": worst, "free_var_stationarity": lin}
        self.sol = {"xx": xx, "y": y, "barx": [_tril_pack(B) for B in barx], "bars": [_tril_pack(S) for S in bars],
                    "prosta": prosta.prim_and_dual_feas}
        return None

    def _need_sol(self):
        if self.sol is None:
            raise Error("no solution available")

    def getbarxj(self, whichsol, j):
        self._need_sol()
        return self.sol["barx"][int(j)].copy()

    def getbarsj(self, whichsol, j):
        self._need_sol()
        return self.sol["bars"][int(j)].copy()

    def gety(self, whichsol):
        self._need_sol()
        return self.sol["y"].copy()

    def getxx(self, whichsol):
        self._need_sol()
        return self.sol["xx"].copy()

    def getprosta(self, whichsol):
        self._need_sol()
        return self.sol["prosta"]

    def getsolsta(self, whichsol):
        self._need_sol()
        return solsta.optimal

    def __enter__(self):
        return self

    def __exit__(self, *a):
        return False
