"""Table of shipped examples for C10 (and C09): callable, parameter strategy restricted to the documented validity range,
oracle kind derived from the docstring's wording ('tight' / 'upper') and the assertion used in tests/test_examples.py
(DESIGN.md Appendix B).  kind: 'tight' -> |wc - theory| <= 1e-3 * theory ; 'upper' -> wc <= theory * (1 + 1e-3) ;
'abs' -> |wc - theory| <= 1e-3 * (1 + |theory|)  (potential / continuous-time examples whose theory value is 0 or O(1)).
"""
import math

from hypothesis import strategies as st

Ls = st.sampled_from([1, 0.5, 0.75, 2, 3, 1.5])
small_n = st.integers(1, 4)
ratio = st.sampled_from([0.1, 0.05, 0.3, 0.5, 0.8])
frac = st.sampled_from([0.1, 0.25, 0.5, 0.75, 0.9, 1.0])


def T(**kw):
    return st.fixed_dictionaries(kw)


@st.composite
def L_mu(draw, **extra):
    L = draw(Ls)
    d = {"L": L, "mu": round(L * draw(ratio), 6)}
    for k, s in extra.items():
        d[k] = draw(s)
    return d


@st.composite
def L_gamma(draw, upto=1.0, **extra):
    L = draw(Ls)
    d = {"L": L, "gamma": math.floor(draw(frac) * upto / L * 1e6) / 1e6}      # rounded DOWN: never above the documented limit
    for k, s in extra.items():
        d[k] = draw(s)
    return d


@st.composite
def L_mu_gamma(draw, upto=1.9, **extra):
    L = draw(Ls)
    d = {"L": L, "mu": round(L * draw(ratio), 6), "gamma": math.floor(draw(frac) * upto / L * 1e6) / 1e6}
    for k, s in extra.items():
        d[k] = draw(s)
    return d


@st.composite
def subgrad(draw):
    M = draw(st.sampled_from([1, 2, 0.5, 3]))
    n = draw(st.integers(1, 6))
    return {"M": M, "n": n, "gamma": 1 / ((n + 1) ** 0.5 * M)}


@st.composite
def rsi(draw):
    L = draw(Ls)
    mu = round(L * draw(ratio), 6)
    return {"mu": mu, "L": L, "gamma": round(draw(st.sampled_from([0.25, 0.5, 1.0, 1.5])) * mu / L ** 2, 8), "n": draw(small_n)}


@st.composite
def heavy_ball(draw):
    L = draw(Ls)
    mu = round(L * draw(ratio), 6)
    alpha = draw(st.sampled_from([0.25, 0.5, 0.75, 1.0])) / L
    beta = ((1 - alpha * mu) * (1 - L * alpha)) ** 0.5
    return {"mu": mu, "L": L, "alpha": alpha, "beta": beta, "n": draw(st.integers(1, 3))}


@st.composite
def polyak(draw, hi):
    L = draw(Ls)
    mu = round(L * draw(ratio), 6)
    lo_, hi_ = 1 / L, (1 / mu if hi == "1/mu" else (2 * L - mu) / L ** 2)
    t = draw(st.sampled_from([0.0, 0.25, 0.5, 0.75, 1.0]))
    return {"L": L, "mu": mu, "gamma": lo_ + t * (hi_ - lo_)}


@st.composite
def app(draw):
    n = draw(st.integers(1, 4))
    return {"A0": draw(st.sampled_from([1, 2, 0.5])), "gammas": [draw(st.sampled_from([1, 0.5, 2])) for _ in range(n)], "n": n}


@st.composite
def km(draw):
    n = draw(st.integers(1, 8))
    return {"n": n, "gamma": draw(st.sampled_from([0.5, 0.6, 0.75, 0.9, 1.0]))}


@st.composite
def pidrs(draw):
    L = draw(st.sampled_from([2, 5, 3]))
    return {"mu": round(L * draw(st.sampled_from([0.1, 0.2, 0.5])), 6), "L": L, "n": draw(st.integers(1, 3)),
            "gamma": draw(st.sampled_from([0.5, 1.0, 1.4, 2.0])), "sigma": draw(st.sampled_from([0.0, 0.1, 0.2, 0.5]))}


@st.composite
def silver(draw):
    k = draw(st.integers(1, 3))
    return {"L": draw(Ls), "n": 2 ** k - 1}


UC = "PEPit.examples.unconstrained_convex_minimization"
CC = "PEPit.examples.composite_convex_minimization"
FP = "PEPit.examples.fixed_point_problems"
MI = "PEPit.examples.monotone_inclusions_variational_inequalities"
ST = "PEPit.examples.stochastic_and_randomized_convex_minimization"
NC = "PEPit.examples.nonconvex_optimization"
IP = "PEPit.examples.inexact_proximal_methods"
CT = "PEPit.examples.continuous_time_models"
PF = "PEPit.examples.potential_functions"
AD = "PEPit.examples.adaptive_methods"
TU = "PEPit.examples.tutorials"

# name -> (module, function, parameter strategy, kind)
EXAMPLES = {
    "gradient_descent": (UC, "wc_gradient_descent", L_gamma(upto=1.0, n=st.integers(1, 5)), "tight"),
    "gradient_descent_contraction": (TU, "wc_gradient_descent_contraction", L_mu_gamma(n=st.integers(1, 3)), "tight"),
    "proximal_gradient": (CC, "wc_proximal_gradient", L_mu_gamma(n=st.integers(1, 3)), "tight"),
    "proximal_gradient_quadratics": (CC, "wc_proximal_gradient_quadratics", L_mu_gamma(n=st.integers(1, 3)), "tight"),
    "proximal_point": (UC, "wc_proximal_point", T(gamma=st.sampled_from([0.1, 0.5, 1, 2, 3]), n=st.integers(1, 5)), "tight"),
    "gradient_exact_line_search": (UC, "wc_gradient_exact_line_search", L_mu(n=st.integers(1, 3)), "tight"),
    "inexact_gradient_descent": (UC, "wc_inexact_gradient_descent", L_mu(epsilon=st.sampled_from([0.0, 0.1, 0.3, 0.5]), n=st.integers(1, 3)), "tight"),
    "subgradient_method": (UC, "wc_subgradient_method", subgrad(), "tight"),
    "subgradient_method_rsi_eb": (UC, "wc_subgradient_method_rsi_eb", rsi(), "tight"),
    "conjugate_gradient": (UC, "wc_conjugate_gradient", T(L=Ls, n=st.integers(1, 3)), "tight"),
    "conjugate_gradient_qg_convex": (UC, "wc_conjugate_gradient_qg_convex", T(L=Ls, n=st.integers(1, 5)), "tight"),
    "heavy_ball_momentum_qg_convex": (UC, "wc_heavy_ball_momentum_qg_convex", T(L=Ls, n=st.integers(1, 4)), "upper"),
    "optimized_gradient": (UC, "wc_optimized_gradient", T(L=Ls, n=st.integers(1, 5)), "tight"),
    "optimized_gradient_for_gradient": (UC, "wc_optimized_gradient_for_gradient", T(L=Ls, n=st.integers(1, 5)), "tight"),
    "information_theoretic": (UC, "wc_information_theoretic", L_mu(n=st.integers(1, 4)), "tight"),
    "triple_momentum": (UC, "wc_triple_momentum", L_mu(n=st.integers(1, 4)), "upper"),
    "robust_momentum": (UC, "wc_robust_momentum", L_mu(lam=st.sampled_from([0.0, 0.2, 0.5, 0.8, 1.0])), "upper"),
    "accelerated_gradient_convex": (UC, "wc_accelerated_gradient_convex", T(mu=st.just(0), L=Ls, n=st.integers(1, 6)), "tight"),
    "accelerated_gradient_strongly_convex": (UC, "wc_accelerated_gradient_strongly_convex", L_mu(n=st.integers(1, 4)), "upper"),
    "accelerated_proximal_point": (UC, "wc_accelerated_proximal_point", app(), "upper"),
    "gradient_descent_quadratics": (UC, "wc_gradient_descent_quadratics", L_mu_gamma(upto=1.9, n=st.integers(1, 3)), "tight"),
    "gradient_descent_qg_convex_decreasing": (UC, "wc_gradient_descent_qg_convex_decreasing", T(L=Ls, n=st.integers(1, 4)), "tight"),
    "gradient_descent_silver_stepsize_convex": (UC, "wc_gradient_descent_silver_stepsize_convex", silver(), "upper"),
    "heavy_ball_momentum": (UC, "wc_heavy_ball_momentum", heavy_ball(), "upper"),
    "epsilon_subgradient_method": (UC, "wc_epsilon_subgradient_method",
                                   T(M=st.sampled_from([1, 2]), n=st.integers(1, 4), gamma=st.sampled_from([0.2, 0.5, 1.0]),
                                     eps=st.sampled_from([0.0, 0.5, 2]), R=st.sampled_from([1, 2])), "upper"),
    "accelerated_proximal_gradient": (CC, "wc_accelerated_proximal_gradient", T(mu=st.just(0), L=Ls, n=st.integers(1, 4)), "tight"),
    "bregman_proximal_point": (CC, "wc_bregman_proximal_point", T(gamma=st.sampled_from([0.5, 1, 3]), n=st.integers(1, 4)), "tight"),
    "douglas_rachford_splitting_contraction": (CC, "wc_douglas_rachford_splitting_contraction",
                                               L_mu(alpha=st.sampled_from([0.5, 1, 3]), theta=st.just(1), n=st.integers(1, 2)), "tight"),
    "frank_wolfe": (CC, "wc_frank_wolfe", T(L=Ls, D=st.sampled_from([1.0, 0.25, 0.5, 2.0, 0.1]), n=st.integers(1, 5)), "upper"),
    "no_lips_in_function_value": (CC, "wc_no_lips_in_function_value", L_gamma(upto=1.0, n=st.integers(1, 4)), "tight"),
    "no_lips_in_bregman_divergence": (CC, "wc_no_lips_in_bregman_divergence", L_gamma(upto=1.0, n=st.integers(2, 4)), "upper"),
    "improved_interior_algorithm": (CC, "wc_improved_interior_algorithm",
                                    T(L=st.just(1), mu=st.just(1), c=st.just(1), lam=st.just(1), n=st.integers(1, 4)), "upper"),
    "halpern_iteration": (FP, "wc_halpern_iteration", T(n=st.integers(1, 8)), "tight"),
    "optimal_contractive_halpern_iteration": (FP, "wc_optimal_contractive_halpern_iteration",
                                              T(n=st.integers(1, 4), gamma=st.sampled_from([1.05, 1.13, 1.5, 2.0])), "tight"),
    "krasnoselskii_mann_constant_step_sizes": (FP, "wc_krasnoselskii_mann_constant_step_sizes", km(), "upper"),
    "inconsistent_halpern_iteration": (FP, "wc_inconsistent_halpern_iteration", T(n=st.integers(1, 8)), "upper"),
    "proximal_point_operators": (MI, "wc_proximal_point", T(alpha=st.sampled_from([0.5, 1, 2.1, 3]), n=st.integers(1, 6)), "tight"),
    "accelerated_proximal_point_operators": (MI, "wc_accelerated_proximal_point", T(alpha=st.sampled_from([0.5, 1, 2.1]), n=st.integers(1, 6)), "tight"),
    "optimal_strongly_monotone_proximal_point": (MI, "wc_optimal_strongly_monotone_proximal_point",
                                                 T(n=st.integers(1, 4), mu=st.sampled_from([0.05, 0.23, 0.5, 1.0])), "tight"),
    "partially_inexact_douglas_rachford_splitting": (IP, "wc_partially_inexact_douglas_rachford_splitting", pidrs(), "tight"),
    "relatively_inexact_proximal_point_algorithm": (IP, "wc_relatively_inexact_proximal_point_algorithm",
                                                    T(n=st.integers(1, 4), gamma=st.sampled_from([1, 2, 0.5]), sigma=st.sampled_from([0.0, 0.3, 0.6])), "upper"),
    "accelerated_inexact_forward_backward": (IP, "wc_accelerated_inexact_forward_backward",
                                             T(L=st.sampled_from([1, 3, 10]), zeta=st.sampled_from([0.0, 0.5, 0.87]), n=st.integers(1, 5)), "upper"),
    "gradient_descent_non_convex": (NC, "wc_gradient_descent", L_gamma(upto=1.0, n=st.integers(1, 4)), "tight"),
    "gradient_descent_non_convex_low_dim": ("PEPit.examples.low_dimensional_worst_cases_scenarios", "wc_gradient_descent",
                                            L_gamma(upto=1.0, n=st.integers(1, 3)), "tight"),
    "saga": (ST, "wc_saga", L_mu(n=st.integers(2, 4)), "upper"),
    "sgd": (ST, "wc_sgd", T(L=Ls, mu_ratio=ratio, v=st.sampled_from([0.5, 1, 2]), R=st.sampled_from([1, 2]), n=st.integers(2, 4)), "tight"),
    "sgd_overparametrized": (ST, "wc_sgd_overparametrized", T(L=Ls, mu_ratio=ratio, n=st.integers(2, 4)), "tight"),
    "point_saga": (ST, "wc_point_saga", L_mu(n=st.integers(2, 4)), "upper"),
    "randomized_coordinate_descent_smooth_convex": (ST, "wc_randomized_coordinate_descent_smooth_convex",
                                                    L_gamma(upto=1.0, d=st.integers(2, 3), t=st.integers(1, 4)), "tight"),
    "randomized_coordinate_descent_smooth_strongly_convex": (ST, "wc_randomized_coordinate_descent_smooth_strongly_convex",
                                                             L_mu_gamma(upto=1.0, d=st.integers(2, 3)), "tight"),
    "douglas_rachford_splitting_operators": (MI, "wc_douglas_rachford_splitting",
                                             T(L=st.sampled_from([1, 2, 3, 0.5]), mu=st.sampled_from([0.1, 0.5, 1.0]),
                                               alpha=st.sampled_from([1.3, 1.0, 0.5]), theta=st.sampled_from([0.9, 1.0, 1.5, 0.5])), "tight"),
    "gradient_descent_qg_convex": (UC, "wc_gradient_descent_qg_convex", L_gamma(upto=1.0, n=st.integers(1, 4)), "tight"),
    "gradient_descent_silver_stepsize_strongly_convex": (UC, "wc_gradient_descent_silver_stepsize_strongly_convex",
                                                         L_mu(n=st.integers(1, 4)), "tight"),
    "inexact_gradient_exact_line_search": (UC, "wc_inexact_gradient_exact_line_search",
                                           L_mu(epsilon=st.sampled_from([0.1, 0.3, 0.5]), n=st.integers(1, 2)), "tight"),
    "no_lips_1": (NC, "wc_no_lips_1", L_gamma(upto=0.9, n=st.integers(1, 4)), "tight"),
    "no_lips_2": (NC, "wc_no_lips_2", L_gamma(upto=0.9, n=st.integers(1, 4)), "tight"),
    "polyak_steps_in_distance_to_optimum": (AD, "wc_polyak_steps_in_distance_to_optimum", polyak("1/mu"), "abs"),
    "polyak_steps_in_function_value": (AD, "wc_polyak_steps_in_function_value", polyak("fv"), "abs"),
    "gradient_flow_convex": (CT, "wc_gradient_flow_convex", T(t=st.sampled_from([0.5, 1, 3.4, 10])), "abs"),
    "accelerated_gradient_flow_convex": (CT, "wc_accelerated_gradient_flow_convex", T(t=st.sampled_from([0.5, 1, 3.4, 10])), "abs"),
    "gradient_flow_strongly_convex": (CT, "wc_gradient_flow_strongly_convex", T(mu=st.sampled_from([0.1, 0.8, 2.1])), "abs"),
    "accelerated_gradient_flow_strongly_convex": (CT, "wc_accelerated_gradient_flow_strongly_convex",
                                                  T(mu=st.sampled_from([0.1, 0.8, 2.1]), psd=st.booleans()), "abs"),
    "gradient_descent_lyapunov_1": (PF, "wc_gradient_descent_lyapunov_1", T(L=Ls, gamma_is_1_over_L=st.just(True), n=st.integers(1, 10)), "abs-upper"),
    "gradient_descent_lyapunov_2": (PF, "wc_gradient_descent_lyapunov_2", T(L=Ls, gamma_is_1_over_L=st.just(True), n=st.integers(1, 10)), "abs-upper"),
    "accelerated_gradient_method_potential": (PF, "wc_accelerated_gradient_method",
                                              T(L=Ls, gamma_is_1_over_L=st.just(True), lam=st.sampled_from([1, 3, 10])), "abs-upper"),
}


def resolve(name, params):
    """turn the drawn parameter dict into the keyword arguments of the example"""
    p = dict(params)
    if "mu_ratio" in p:
        p["mu"] = round(p["L"] * p.pop("mu_ratio"), 6)
    if name in ("sgd", "sgd_overparametrized"):
        p["gamma"] = 1 / p["L"]
    if p.pop("gamma_is_1_over_L", False):
        p["gamma"] = 1 / p["L"]
    return p


def regime(name, kwargs):
    """sub-range label used in failure buckets (so that a known finding on one sub-range does not hide the others)"""
    if name in ("gradient_descent_non_convex", "gradient_descent_non_convex_low_dim"):
        return "gamma<1/L" if kwargs["gamma"] * kwargs["L"] < 1 - 1e-9 else "gamma=1/L"
    return ""
