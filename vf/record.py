"""Observation of what PEP.solve hands to the back-end, without touching the repository.

`install()` replaces the entry "cvxpy" of PEPit.wrappers.WRAPPERS (the dict PEP.solve looks up) by a subclass
of the real CvxpyWrapper that logs every call and then delegates.  `build_only=True` makes `solve` return
"no value" immediately, so that PEP.solve performs the whole collection / translation but no numerical solve.
"""
import numpy as np

LOG = {"events": [], "wrappers": []}
STATE = {"build_only": False, "installed": False, "orig": None}


def _make_class():
    from PEPit.wrappers.cvxpy_wrapper import CvxpyWrapper

    class RecordingCvxpyWrapper(CvxpyWrapper):
        def __init__(self, verbose=1):
            super().__init__(verbose=verbose)
            LOG["wrappers"].append(self)
            self.events = []
            LOG["events"] = self.events
            self.n_solves = 0

        def set_main_variables(self):
            self.events.append(("main",))
            return super().set_main_variables()

        def send_constraint_to_solver(self, constraint, *a, **k):
            self.events.append(("c", constraint))
            return super().send_constraint_to_solver(constraint, *a, **k)

        def send_lmi_constraint_to_solver(self, psd_counter, psd_matrix):
            self.events.append(("lmi", psd_matrix))
            return super().send_lmi_constraint_to_solver(psd_counter, psd_matrix)

        def generate_problem(self, objective):
            self.events.append(("problem", objective))
            return super().generate_problem(objective)

        def prepare_heuristic(self, wc_value, tol):
            self.events.append(("prepare_heuristic", wc_value, tol))
            return super().prepare_heuristic(wc_value, tol)

        def heuristic(self, weight):
            self.events.append(("heuristic", np.array(weight, copy=True)))
            return super().heuristic(weight)

        def solve(self, **kwargs):
            self.n_solves += 1
            self.events.append(("solve", dict(kwargs)))
            if STATE["build_only"]:
                return "build_only", "none", None
            return super().solve(**kwargs)

    return RecordingCvxpyWrapper


def install(build_only=False):
    import PEPit.wrappers as W
    if not STATE["installed"]:
        STATE["orig"] = W.WRAPPERS["cvxpy"]
        W.WRAPPERS["cvxpy"] = _make_class()
        STATE["installed"] = True
    STATE["build_only"] = build_only
    LOG["wrappers"] = []
    LOG["events"] = []


def uninstall():
    import PEPit.wrappers as W
    if STATE["installed"]:
        W.WRAPPERS["cvxpy"] = STATE["orig"]
        STATE["installed"] = False


def reset_log():
    LOG["wrappers"] = []
    LOG["events"] = []


def sent(events):
    """(list of Constraint objects, list of PSDMatrix objects) in sending order."""
    cons = [e[1] for e in events if e[0] == "c"]
    lmis = [e[1] for e in events if e[0] == "lmi"]
    return cons, lmis
