"""Reference class conditions, transcribed from the class docstrings and the cited interpolation theorems
(DESIGN.md Appendix A) in an algebra of our own (no PEPit operator is called: points are coefficient dictionaries read
from decomposition_dict, scalars are vf.sem functionals).

reference(function) -> dict(scalar=[(sense, functional, (condition, i, j))...], lmis=[(name, matrix of functionals)])
where i, j index function.list_of_points (j is None for single-sample conditions; for conditions between the stationary
list and all samples, i indexes list_of_stationary_points and the label is (condition, ('s', i), j)).
Sense 'ineq' means functional <= 0, 'eq' means functional == 0.
"""
import math

from vf import sem


# ---- tiny algebra -------------------------------------------------------------------------------------------------
class RP(object):
    """linear combination of leaf points (by identity)"""

    def __init__(self, coeffs=None):
        self.c = {}       # id -> weight
        self.o = {}       # id -> leaf object
        if coeffs:
            for leaf, w in coeffs.items():
                self.c[id(leaf)] = w
                self.o[id(leaf)] = leaf

    @staticmethod
    def of(point):
        return RP(sem.point_coeffs(point))

    def __add__(self, other):
        r = RP()
        r.c = dict(self.c)
        r.o = dict(self.o)
        for k, w in other.c.items():
            r.c[k] = r.c.get(k, 0.0) + w
            r.o[k] = other.o[k]
        return r

    def __sub__(self, other):
        return self + other * (-1.0)

    def __mul__(self, s):
        r = RP()
        r.c = {k: w * s for k, w in self.c.items()}
        r.o = dict(self.o)
        return r

    __rmul__ = __mul__


def inner(p, q):
    acc = {}
    objs = {}
    for a, wa in p.c.items():
        for b, wb in q.c.items():
            i, j = (a, b) if a <= b else (b, a)
            acc[(i, j)] = acc.get((i, j), 0.0) + wa * wb
            objs[i] = p.o.get(i, q.o.get(i))
            objs[j] = q.o.get(j, p.o.get(j))
    return {("G", objs[i], objs[j]): v for (i, j), v in acc.items() if v != 0}


def sq(p):
    return inner(p, p)


def lin(*terms):
    """sum of (coefficient, functional)"""
    return sem.fun_lincomb([(c, f) for c, f in terms])


def const(v):
    return {("1",): float(v)} if v != 0 else {}


def samples_of(function):
    out = []
    for (x, g, f) in function.list_of_points:
        out.append((RP.of(x), RP.of(g), sem.functional(f)))
    return out


def stationary_of(function):
    out = []
    for (x, g, f) in function.list_of_stationary_points:
        out.append((RP.of(x), RP.of(g), sem.functional(f)))
    return out


def stationary_indices(function):
    """index in list_of_points of each stationary sample (by triplet identity)"""
    idx = []
    for t in function.list_of_stationary_points:
        idx.append([k for k, u in enumerate(function.list_of_points) if u is t][0])
    return idx


# ---- pairwise helpers ----------------------------------------------------------------------------------------------
def ordered_pairs(n):
    return [(i, j) for i in range(n) for j in range(n) if i != j]


def unordered_pairs(n):
    return [(i, j) for i in range(n) for j in range(i + 1, n)]


def convexity(S, i, j, mu=0.0):
    # f_i >= f_j + <g_j, x_i - x_j> + mu/2 |x_i - x_j|^2      ->   f_j - f_i + <g_j, x_i-x_j> + mu/2|..|^2 <= 0
    xi, gi, fi = S[i]
    xj, gj, fj = S[j]
    terms = [(1.0, fj), (-1.0, fi), (1.0, inner(gj, xi - xj))]
    if mu:
        terms.append((mu / 2.0, sq(xi - xj)))
    return lin(*terms)


def smooth_convex(S, i, j, L):
    xi, gi, fi = S[i]
    xj, gj, fj = S[j]
    terms = [(1.0, fj), (-1.0, fi), (1.0, inner(gj, xi - xj))]
    if L != math.inf:
        terms.append((1.0 / (2.0 * L), sq(gi - gj)))
    return lin(*terms)


def reference(function):
    name = type(function).__name__
    S = samples_of(function)
    n = len(S)
    sc = []
    lmis = []

    def add(sense, fun, label):
        sc.append((sense, fun, label))

    if name == "ConvexFunction":
        for i, j in ordered_pairs(n):
            add("ineq", convexity(S, i, j), ("convexity", i, j))
    elif name == "StronglyConvexFunction":
        for i, j in ordered_pairs(n):
            add("ineq", convexity(S, i, j, function.mu), ("strong_convexity", i, j))
    elif name == "SmoothFunction":
        L = function.L
        for i, j in ordered_pairs(n):
            xi, gi, fi = S[i]
            xj, gj, fj = S[j]
            # f_i >= f_j - L/4|xi-xj|^2 + 1/2<gi+gj, xi-xj> + 1/(4L)|gi-gj|^2
            terms = [(1.0, fj), (-1.0, fi), (0.5, inner(gi + gj, xi - xj))]
            if L != math.inf:
                terms += [(-L / 4.0, sq(xi - xj)), (1.0 / (4.0 * L), sq(gi - gj))]
                add("ineq", lin(*terms), ("smoothness", i, j))
            else:
                add("ineq-unbounded-L", lin(*terms), ("smoothness", i, j))
    elif name == "SmoothConvexFunction":
        for i, j in ordered_pairs(n):
            add("ineq", smooth_convex(S, i, j, function.L), ("smoothness_convexity", i, j))
    elif name == "SmoothStronglyConvexFunction":
        mu, L = function.mu, function.L
        for i, j in ordered_pairs(n):
            xi, gi, fi = S[i]
            xj, gj, fj = S[j]
            if L == math.inf:
                add("ineq", convexity(S, i, j, mu), ("smoothness_strong_convexity", i, j))
                continue
            terms = [(1.0, fj), (-1.0, fi), (1.0, inner(gj, xi - xj)), (1.0 / (2.0 * L), sq(gi - gj)),
                     (mu / (2.0 * (1.0 - mu / L)), sq((xi - xj) - (gi - gj) * (1.0 / L)))]
            add("ineq", lin(*terms), ("smoothness_strong_convexity", i, j))
    elif name == "SmoothConvexLipschitzFunction":
        for i, j in ordered_pairs(n):
            add("ineq", smooth_convex(S, i, j, function.L), ("smoothness_convexity", i, j))
        for i in range(n):
            add("ineq", lin((1.0, sq(S[i][1])), (1.0, const(-function.M ** 2))), ("lipschitz_continuity", i, None))
    elif name == "ConvexLipschitzFunction":
        for i, j in ordered_pairs(n):
            add("ineq", convexity(S, i, j), ("convexity", i, j))
        for i in range(n):
            add("ineq", lin((1.0, sq(S[i][1])), (1.0, const(-function.M ** 2))), ("lipschitz_continuity", i, None))
    elif name == "ConvexIndicatorFunction":
        for i in range(n):
            add("eq", S[i][2], ("value", i, None))
        for i, j in ordered_pairs(n):
            xi, gi, fi = S[i]
            xj, gj, fj = S[j]
            add("ineq", inner(gj, xi - xj), ("convexity", i, j))
        if function.D != math.inf:
            for i, j in ordered_pairs(n):
                add("ineq", lin((1.0, sq(S[i][0] - S[j][0])), (1.0, const(-function.D ** 2))), ("diameter", i, j))
    elif name == "ConvexSupportFunction":
        for i in range(n):
            xi, gi, fi = S[i]
            add("eq", lin((1.0, inner(gi, xi)), (-1.0, fi)), ("fenchel_value", i, None))
        if function.M != math.inf:
            for i in range(n):
                add("ineq", lin((1.0, sq(S[i][1])), (1.0, const(-function.M ** 2))), ("lipschitz_continuity", i, None))
        for i, j in ordered_pairs(n):
            xi, gi, fi = S[i]
            xj, gj, fj = S[j]
            add("ineq", inner(xj, gi - gj), ("convexity", i, j))
    elif name == "ConvexQGFunction":
        L = function.L
        for i, j in ordered_pairs(n):
            add("ineq", convexity(S, i, j), ("convexity", i, j))
        for si, s in enumerate(stationary_indices(function)):
            for j in range(n):
                if j == s:
                    continue
                xs, gs, fs = S[s]
                xj, gj, fj = S[j]
                # f_s >= f_j + <g_j, x_s - x_j> + 1/(2L)|g_j|^2
                add("ineq", lin((1.0, fj), (-1.0, fs), (1.0, inner(gj, xs - xj)), (1.0 / (2.0 * L), sq(gj))),
                    ("qg_convexity", ("s", si), j))
    elif name == "RsiEbFunction":
        mu, L = function.mu, function.L
        for si, s in enumerate(stationary_indices(function)):
            for j in range(n):
                if j == s:
                    continue
                xs, gs, fs = S[s]
                xj, gj, fj = S[j]
                # <g_j, x_j - x_s> >= mu |x_j - x_s|^2     (g_s = 0)
                add("ineq", lin((-1.0, inner(gs - gj, xs - xj)), (mu, sq(xs - xj))), ("rsi", ("s", si), j))
                # |g_j|^2 <= L^2 |x_j - x_s|^2
                add("ineq", lin((1.0, sq(gs - gj)), (-L ** 2, sq(xs - xj))), ("eb", ("s", si), j))
    elif name == "SmoothStronglyConvexQuadraticFunction":
        mu, L = function.mu, function.L
        s = stationary_indices(function)[0]
        xs, gs, fs = S[s]
        for i in range(n):
            xi, gi, fi = S[i]
            add("eq", lin((1.0, fi), (-1.0, fs), (-0.5, inner(xi - xs, gi))), ("value", i, None))
        for i, j in unordered_pairs(n):
            add("eq", lin((1.0, inner(S[i][0] - xs, S[j][1])), (-1.0, inner(S[j][0] - xs, S[i][1]))), ("symmetry", i, j))
        M = [[None] * n for _ in range(n)]
        for i in range(n):
            for j in range(n):
                xi, gi, _ = S[i]
                xj, gj, _ = S[j]
                M[i][j] = lin((L, inner(gi, xj - xs)), (-1.0, inner(gi, gj)), (-mu * L, inner(xi - xs, xj - xs)),
                              (mu, inner(xi - xs, gj)))
        lmis.append(("quadratic", M))
    elif name == "BlockSmoothConvexFunction":
        part = function.partition
        d = part.get_nb_blocks()
        Ls = function.L
        for i, j in ordered_pairs(n):
            xi, gi, fi = S[i]
            xj, gj, fj = S[j]
            gi_pt = function.list_of_points[i][1]
            gj_pt = function.list_of_points[j][1]
            for k in range(d):
                bi = RP.of(part.blocks_dict[gi_pt][k]) if gi_pt in part.blocks_dict else None
                bj = RP.of(part.blocks_dict[gj_pt][k]) if gj_pt in part.blocks_dict else None
                if bi is None or bj is None:
                    add("missing-block", {}, ("smoothness_convexity_block_%d" % k, i, j))
                    continue
                add("ineq", lin((1.0, fj), (-1.0, fi), (1.0, inner(gj, xi - xj)), (1.0 / (2.0 * Ls[k]), sq(bi - bj))),
                    ("smoothness_convexity_block_%d" % k, i, j))
    elif name == "MonotoneOperator":
        for i, j in unordered_pairs(n):
            add("ineq", lin((-1.0, inner(S[i][1] - S[j][1], S[i][0] - S[j][0]))), ("monotonicity", i, j))
    elif name == "StronglyMonotoneOperator":
        for i, j in unordered_pairs(n):
            d = S[i][0] - S[j][0]
            add("ineq", lin((-1.0, inner(S[i][1] - S[j][1], d)), (function.mu, sq(d))), ("strong_monotonicity", i, j))
    elif name == "CocoerciveOperator":
        for i, j in unordered_pairs(n):
            dg = S[i][1] - S[j][1]
            add("ineq", lin((-1.0, inner(dg, S[i][0] - S[j][0])), (function.beta, sq(dg))), ("cocoercivity", i, j))
    elif name == "CocoerciveStronglyMonotoneOperator":
        for i, j in unordered_pairs(n):
            dg = S[i][1] - S[j][1]
            dx = S[i][0] - S[j][0]
            add("ineq", lin((-1.0, inner(dg, dx)), (function.beta, sq(dg))), ("cocoercivity", i, j))
        for i, j in unordered_pairs(n):
            dg = S[i][1] - S[j][1]
            dx = S[i][0] - S[j][0]
            add("ineq", lin((-1.0, inner(dg, dx)), (function.mu, sq(dx))), ("strong_monotonicity", i, j))
    elif name == "LipschitzOperator":
        for i, j in unordered_pairs(n):
            if function.L == math.inf:
                continue
            add("ineq", lin((1.0, sq(S[i][1] - S[j][1])), (-function.L ** 2, sq(S[i][0] - S[j][0]))),
                ("lipschitz_continuity", i, j))
    elif name == "LipschitzStronglyMonotoneOperator":
        for i, j in unordered_pairs(n):
            dg = S[i][1] - S[j][1]
            dx = S[i][0] - S[j][0]
            add("ineq", lin((-1.0, inner(dg, dx)), (function.mu, sq(dx))), ("strong_monotonicity", i, j))
        for i, j in unordered_pairs(n):
            dg = S[i][1] - S[j][1]
            dx = S[i][0] - S[j][0]
            add("ineq", lin((1.0, sq(dg)), (-function.L ** 2, sq(dx))), ("lipschitz_continuity", i, j))
    elif name == "NegativelyComonotoneOperator":
        for i, j in unordered_pairs(n):
            dg = S[i][1] - S[j][1]
            add("ineq", lin((-1.0, inner(dg, S[i][0] - S[j][0])), (-function.rho, sq(dg))), ("negative_comonotonicity", i, j))
    elif name == "NonexpansiveOperator":
        for i, j in unordered_pairs(n):
            add("ineq", lin((1.0, sq(S[i][1] - S[j][1])), (-1.0, sq(S[i][0] - S[j][0]))), ("nonexpansiveness", i, j))
        if function.v is not None:
            v = RP.of(function.v)
            for i in range(n):
                add("ineq", lin((1.0, sq(v)), (-1.0, inner(S[i][0] - S[i][1], v))), ("infimal_displacement_vector", i, None))
    elif name == "LinearOperator":
        T = [(RP.of(u), RP.of(v)) for (u, v, h) in function.T.list_of_points]
        L = function.L
        for i in range(n):
            for j in range(len(T)):
                add("eq", lin((1.0, inner(S[i][0], T[j][1])), (-1.0, inner(S[i][1], T[j][0]))), ("adjoint_linearity", i, j))
        lmis.append(("operator", [[lin((L ** 2, inner(S[i][0], S[j][0])), (-1.0, inner(S[i][1], S[j][1]))) for j in range(n)]
                                  for i in range(n)]))
        m = len(T)
        lmis.append(("adjoint", [[lin((L ** 2, inner(T[i][0], T[j][0])), (-1.0, inner(T[i][1], T[j][1]))) for j in range(m)]
                                 for i in range(m)]))
    elif name == "SymmetricLinearOperator":
        mu, L = function.mu, function.L
        for i, j in unordered_pairs(n):
            add("eq", lin((1.0, inner(S[i][0], S[j][1])), (-1.0, inner(S[j][0], S[i][1]))), ("symmetric_linearity", i, j))
        lmis.append(("operator", [[lin((L, inner(S[i][1], S[j][0])), (-1.0, inner(S[i][1], S[j][1])),
                                       (-mu * L, inner(S[i][0], S[j][0])), (mu, inner(S[i][0], S[j][1])))
                                   for j in range(n)] for i in range(n)]))
    elif name == "SkewSymmetricLinearOperator":
        L = function.L
        for i in range(n):
            for j in range(i, n):
                # <x_i, A x_j> = - <x_j, A x_i>, including i == j : <x_i, A x_i> = 0
                add("eq", lin((1.0, inner(S[i][0], S[j][1])), (1.0, inner(S[j][0], S[i][1]))), ("antisymmetric_linearity", i, j))
        lmis.append(("operator", [[lin((L ** 2, inner(S[i][0], S[j][0])), (-1.0, inner(S[i][1], S[j][1]))) for j in range(n)]
                                  for i in range(n)]))
    else:
        raise ValueError("no reference conditions for %s" % name)
    return {"scalar": sc, "lmis": lmis}
