"""Run a function in a forked child and get its JSON result back (fresh-interpreter semantics: the parent worker
never constructs PEPit objects itself, so a child that runs only program B sees exactly what a fresh process sees)."""
import json
import os
import sys
import traceback


def run_in_child(fn, *args):
    r, w = os.pipe()
    pid = os.fork()
    if pid == 0:
        code = 0
        try:
            os.close(r)
            try:
                out = {"ok": fn(*args)}
            except BaseException:  # noqa
                out = {"error": traceback.format_exc()}
            data = json.dumps(out, default=repr).encode()
            with os.fdopen(w, "wb") as f:
                f.write(data)
        except BaseException:  # noqa
            code = 1
        finally:
            os._exit(code)
    os.close(w)
    chunks = []
    with os.fdopen(r, "rb") as f:
        while True:
            b = f.read(1 << 16)
            if not b:
                break
            chunks.append(b)
    os.waitpid(pid, 0)
    data = b"".join(chunks)
    if not data:
        return {"error": "child produced no output"}
    return json.loads(data.decode())
