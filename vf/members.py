"""Real members of the 24 shipped function / operator classes, with declared parameters and oracles returning
*admissible* (sub)gradients (a random element of the subdifferential / operator image where it is not a singleton).

A member is built deterministically from (family name, integer seed, dimension, slack) so that a case is pure data.
slack = 1 gives extremal members (curvatures / norms exactly equal to the declared parameters).
"""
import math

import numpy as np


def orth(rng, n):
    q, r = np.linalg.qr(rng.randn(n, n))
    return q * np.sign(np.diag(r) + (np.diag(r) == 0))


def sym_with_spectrum(rng, eigs):
    q = orth(rng, len(eigs))
    return (q * np.asarray(eigs, dtype=float)) @ q.T


def skew(rng, n, norm):
    if n == 1:
        return np.zeros((1, 1))
    a = rng.randn(n, n)
    s = a - a.T
    s = s / max(np.linalg.norm(s, 2), 1e-12) * norm
    return s


def int_vec(rng, n, lo=-3, hi=3):
    return rng.randint(lo, hi + 1, size=n).astype(float)


class Member(object):
    params = {}
    has_values = True
    differentiable = False

    def value(self, x):
        return 0.0

    def grad(self, x, rng):
        raise NotImplementedError

    def stationary(self):
        return None

    def fixed(self):
        return None

    def in_domain(self, x):
        return True

    def check_membership(self, rng):
        """independent definitional spot-check; returns None or a message"""
        return None


# ----------------------------------------------------------------------------------------------------------------
# smooth convex building blocks  phi with phi'(0) = 0 and 0 <= phi'' <= 1
# ----------------------------------------------------------------------------------------------------------------
def huber(delta):
    return (lambda t: np.where(np.abs(t) <= delta, 0.5 * t * t, delta * (np.abs(t) - 0.5 * delta)),
            lambda t: np.clip(t, -delta, delta))


PHIS = {
    "quad": (lambda t: 0.5 * t * t, lambda t: t),
    "logcosh": (lambda t: np.log(np.cosh(t)), lambda t: np.tanh(t)),
    "huber1": huber(1.0),
    "huber.25": huber(0.25),
    "huber4": huber(4.0),          # wide knee: gradient norms well above the curvature (only used where asked for by name)
}
DEFAULT_PHIS = ["quad", "logcosh", "huber1", "huber.25"]


class SumPhi(Member):
    """f(x) = sum_i w_i phi_i(a_i.(x - c)) + mu/2 |x - c|^2 + d ; curvature in [mu, mu + lambda_max(sum w_i a_i a_i^T)]"""
    differentiable = True

    def __init__(self, rng, n, mu=0.0, quadratic_only=False, integer=True):
        self.n = n
        k = rng.randint(1, n + 3)
        self.A = np.array([int_vec(rng, n, -2, 2) for _ in range(k)])
        if not np.any(self.A):
            self.A[0, 0] = 1.0
        self.w = rng.randint(1, 4, size=k).astype(float) / 2.0
        self.c = int_vec(rng, n, -2, 2)
        self.d = float(rng.randint(-3, 4))
        names = ["quad"] if quadratic_only else list(DEFAULT_PHIS)
        self.phis = [names[rng.randint(len(names))] for _ in range(k)]
        self.mu = mu
        H = (self.A.T * self.w) @ self.A
        self.Lsmooth = float(np.linalg.eigvalsh(H)[-1]) + mu
        self.H = H + mu * np.eye(n)

    def value(self, x):
        t = self.A @ (x - self.c)
        return float(sum(w * PHIS[p][0](ti) for w, p, ti in zip(self.w, self.phis, t)) + 0.5 * self.mu * np.dot(x - self.c, x - self.c) + self.d)

    def grad(self, x, rng=None):
        t = self.A @ (x - self.c)
        s = np.array([w * PHIS[p][1](ti) for w, p, ti in zip(self.w, self.phis, t)])
        return self.A.T @ s + self.mu * (x - self.c)

    def stationary(self):
        return self.c.copy()

    def fixed(self):
        if all(p == "quad" for p in self.phis):
            M = self.H - np.eye(self.n)
            if abs(np.linalg.det(M)) > 1e-6:
                return np.linalg.solve(M, self.H @ self.c)
        return None


class Quadratic(Member):
    """f(x) = 1/2 (x-c)^T Q (x-c) + d with prescribed spectrum"""
    differentiable = True

    def __init__(self, rng, n, eigs):
        self.n = n
        self.Q = sym_with_spectrum(rng, eigs)
        self.c = int_vec(rng, n, -2, 2)
        self.d = float(rng.randint(-3, 4))

    def value(self, x):
        return float(0.5 * (x - self.c) @ self.Q @ (x - self.c) + self.d)

    def grad(self, x, rng=None):
        return self.Q @ (x - self.c)

    def stationary(self):
        return self.c.copy()

    def fixed(self):
        M = self.Q - np.eye(self.n)
        if abs(np.linalg.det(M)) > 1e-6:
            return np.linalg.solve(M, self.Q @ self.c)
        return None


class MaxAffine(Member):
    """f(x) = max_k a_k.(x - c) + b_k  with integer data (exact ties); sum a_k = 0 and b = 0 make c a minimiser"""

    def __init__(self, rng, n, centered=True, through_origin=False):
        k = rng.randint(2, n + 4)
        A = [int_vec(rng, n, -2, 2) for _ in range(k - 1)]
        A.append(-np.sum(A, axis=0))
        self.A = np.array(A)
        self.c = np.zeros(n) if through_origin else int_vec(rng, n, -2, 2)
        self.b = np.zeros(k) if centered else rng.randint(-2, 1, size=k).astype(float)
        self.centered = centered
        self.M = float(max(np.linalg.norm(a) for a in self.A))
        self.d = 0.0 if through_origin else float(rng.randint(-2, 3))

    def pieces(self, x):
        return self.A @ (x - self.c) + self.b

    def value(self, x):
        return float(np.max(self.pieces(x)) + self.d)

    def grad(self, x, rng):
        p = self.pieces(x)
        act = np.nonzero(p >= np.max(p) - 1e-12)[0]
        if len(act) == 1 or rng.randint(3) == 0:
            return self.A[act[rng.randint(len(act))]].copy()
        w = rng.dirichlet(np.ones(len(act)))
        return w @ self.A[act]

    def stationary(self):
        return self.c.copy() if self.centered else None


class WeightedL1(Member):
    def __init__(self, rng, n):
        self.w = rng.randint(0, 4, size=n).astype(float)
        self.c = int_vec(rng, n, -2, 2)
        self.M = float(np.linalg.norm(self.w))
        self.d = float(rng.randint(-2, 3))

    def value(self, x):
        return float(self.w @ np.abs(x - self.c) + self.d)

    def grad(self, x, rng):
        g = self.w * np.sign(x - self.c)
        ties = np.nonzero(np.abs(x - self.c) <= 1e-12)[0]
        for i in ties:
            g[i] = self.w[i] * rng.uniform(-1, 1) if rng.randint(2) else self.w[i] * rng.choice([-1.0, 0.0, 1.0])
        return g

    def stationary(self):
        return self.c.copy()


class Norm2(Member):
    def __init__(self, rng, n):
        self.M = float(rng.randint(1, 5)) / 2.0
        self.c = int_vec(rng, n, -2, 2)
        self.d = float(rng.randint(-2, 3))

    def value(self, x):
        return float(self.M * np.linalg.norm(x - self.c) + self.d)

    def grad(self, x, rng):
        r = np.linalg.norm(x - self.c)
        if r <= 1e-12:
            u = rng.randn(len(x))
            u = u / max(np.linalg.norm(u), 1e-12)
            return self.M * u * (1.0 if rng.randint(2) else rng.uniform(0, 1))
        return self.M * (x - self.c) / r

    def stationary(self):
        return self.c.copy()


class LinfSquared(Member):
    """f(x) = L/2 |x - c|_inf^2 : convex, f - f* <= L/2 |x - c|_2^2"""

    def __init__(self, rng, n):
        self.L = float(rng.randint(1, 5)) / 2.0
        self.c = int_vec(rng, n, -2, 2)

    def value(self, x):
        return float(0.5 * self.L * np.max(np.abs(x - self.c)) ** 2)

    def grad(self, x, rng):
        a = np.abs(x - self.c)
        m = np.max(a)
        if m <= 1e-12:
            return np.zeros(len(x))
        act = np.nonzero(a >= m - 1e-12)[0]
        w = rng.dirichlet(np.ones(len(act))) if len(act) > 1 and rng.randint(2) else np.eye(len(act))[rng.randint(len(act))]
        g = np.zeros(len(x))
        for wi, i in zip(w, act):
            g[i] = wi * np.sign(x[i] - self.c[i])
        return self.L * m * g

    def stationary(self):
        return self.c.copy()


class BoxIndicator(Member):
    def __init__(self, rng, n):
        self.lo = int_vec(rng, n, -3, 0)
        self.hi = self.lo + rng.randint(0, 4, size=n).astype(float)
        self.D = float(np.linalg.norm(self.hi - self.lo))

    def value(self, x):
        return 0.0

    def in_domain(self, x):
        return bool(np.all(x >= self.lo - 1e-12) and np.all(x <= self.hi + 1e-12))

    def project(self, x):
        return np.clip(x, self.lo, self.hi)

    def grad(self, x, rng):
        g = np.zeros(len(x))
        for i in range(len(x)):
            up = abs(x[i] - self.hi[i]) <= 1e-12
            dn = abs(x[i] - self.lo[i]) <= 1e-12
            if up and dn:
                g[i] = rng.uniform(-2, 2)
            elif up:
                g[i] = rng.uniform(0, 2) * rng.randint(2)
            elif dn:
                g[i] = -rng.uniform(0, 2) * rng.randint(2)
        return g

    def sample_point(self, rng):
        x = self.lo + (self.hi - self.lo) * rng.randint(0, 3, size=len(self.lo)) / 2.0
        return x

    def stationary(self):
        return (self.lo + self.hi) / 2.0


class BallIndicator(Member):
    def __init__(self, rng, n):
        self.c = int_vec(rng, n, -2, 2)
        self.r = float(rng.randint(1, 4))
        self.D = 2 * self.r

    def value(self, x):
        return 0.0

    def in_domain(self, x):
        return bool(np.linalg.norm(x - self.c) <= self.r + 1e-12)

    def grad(self, x, rng):
        d = np.linalg.norm(x - self.c)
        if abs(d - self.r) <= 1e-12 and rng.randint(3):
            return (x - self.c) / d * rng.uniform(0, 2)
        return np.zeros(len(x))

    def sample_point(self, rng):
        u = int_vec(rng, len(self.c), -2, 2)
        nu = np.linalg.norm(u)
        if nu == 0 or rng.randint(3) == 0:
            return self.c + u * 0.0
        return self.c + u / nu * (self.r if rng.randint(2) else self.r * 0.5)

    def stationary(self):
        return self.c.copy()


class RsiEbSeparable(Member):
    """non-convex separable member: f'(t) = t (c + d sin t) per coordinate, minimiser at the centre"""
    differentiable = True

    def __init__(self, rng, n):
        self.cc = float(rng.randint(2, 6)) / 2.0
        self.dd = float(rng.randint(0, int(2 * self.cc))) / 2.0
        self.c = int_vec(rng, n, -2, 2)
        self.mu = self.cc - abs(self.dd)
        self.L = self.cc + abs(self.dd)

    def value(self, x):
        t = x - self.c
        return float(np.sum(self.cc * t * t / 2 + self.dd * (np.sin(t) - t * np.cos(t))))

    def grad(self, x, rng=None):
        t = x - self.c
        return t * (self.cc + self.dd * np.sin(t))

    def stationary(self):
        return self.c.copy()


class CosSum(Member):
    """smooth non-convex: f(x) = sum a_k cos(w_k.x + b_k), |Hessian| <= sum |a_k| |w_k|^2"""
    differentiable = True

    def __init__(self, rng, n):
        k = rng.randint(1, 4)
        self.a = rng.randint(-2, 3, size=k).astype(float)
        self.W = np.array([int_vec(rng, n, -2, 2) for _ in range(k)])
        self.b = rng.randint(0, 4, size=k).astype(float)
        if float(np.sum(np.abs(self.a) * np.sum(self.W ** 2, axis=1))) == 0:
            self.a[0] = 1.0
            self.W[0, 0] = 1.0
        self.L = float(np.sum(np.abs(self.a) * np.sum(self.W ** 2, axis=1)))

    def value(self, x):
        return float(np.sum(self.a * np.cos(self.W @ x + self.b)))

    def grad(self, x, rng=None):
        return -(self.W.T @ (self.a * np.sin(self.W @ x + self.b)))


# ----------------------------------------------------------------------------------------------------------------
# operators
# ----------------------------------------------------------------------------------------------------------------
class SubdiffPlusSkew(Member):
    """A = subdifferential of a convex member + S (x - c) + mu (x - c), S skew: (strongly) monotone, multivalued"""
    has_values = False

    def __init__(self, rng, n, base, mu=0.0):
        self.base = base
        self.S = skew(rng, n, float(rng.randint(0, 4)))
        self.mu = mu
        self.c = base.stationary()

    def grad(self, x, rng):
        return self.base.grad(x, rng) + self.S @ (x - self.c) + self.mu * (x - self.c)

    def in_domain(self, x):
        return self.base.in_domain(x)

    def stationary(self):
        return self.c.copy()


class AffineOp(Member):
    """A x = C (x - c) + e"""
    has_values = False
    differentiable = True

    def __init__(self, C, c, e=None):
        self.C = C
        self.c = c
        self.e = np.zeros(len(c)) if e is None else e

    def grad(self, x, rng=None):
        return self.C @ (x - self.c) + self.e

    def adjoint(self, x):
        return self.C.T @ x

    def stationary(self):
        if not np.any(self.e):
            return self.c.copy()
        if abs(np.linalg.det(self.C)) > 1e-9:
            return self.c - np.linalg.solve(self.C, self.e)
        return None

    def fixed(self):
        # C (x - c) + e = x
        n = len(self.c)
        M = self.C - np.eye(n)
        rhs = self.C @ self.c - self.e
        U, sv, Vt = np.linalg.svd(M)
        inv = np.array([1.0 / x if x > 1e-9 else 0.0 for x in sv])      # absolute cut-off
        sol = Vt.T @ (inv * (U.T @ rhs))
        if np.linalg.norm(M @ sol - rhs) <= 1e-10 * (1 + np.linalg.norm(rhs)):
            return sol
        return None


class GradientOp(Member):
    """A = gradient of a smooth convex member"""
    has_values = False
    differentiable = True

    def __init__(self, base):
        self.base = base

    def grad(self, x, rng=None):
        return self.base.grad(x, rng)

    def stationary(self):
        return self.base.stationary()

    def fixed(self):
        return self.base.fixed()


class TanhOp(Member):
    """A x = B tanh(C x + b): Lipschitz with constant |B| |C|"""
    has_values = False
    differentiable = True

    def __init__(self, rng, n, L):
        B = rng.randn(n, n)
        C = rng.randn(n, n)
        self.B = B / np.linalg.norm(B, 2) * math.sqrt(L)
        self.C = C / np.linalg.norm(C, 2) * math.sqrt(L)
        self.b = int_vec(rng, n, -1, 1)

    def grad(self, x, rng=None):
        return self.B @ np.tanh(self.C @ x + self.b)

    def stationary(self):
        return None


def rot_scale(rng, n, a, b):
    """a I + b J with J skew, J^2 = -I on the even part (odd dimension: last coordinate gets a only)"""
    M = a * np.eye(n)
    for k in range(0, n - 1, 2):
        M[k, k + 1] = -b
        M[k + 1, k] = b
    q = orth(rng, n)
    return q @ M @ q.T, (n >= 2)


# ----------------------------------------------------------------------------------------------------------------
# registry:  class name -> list of (family name, constructor(rng, n, slack) -> (member, params))
# ----------------------------------------------------------------------------------------------------------------
def _half(rng, lo, hi):
    return float(rng.randint(int(2 * lo), int(2 * hi) + 1)) / 2.0


def build(cls, family, seed, n, slack):
    rng = np.random.RandomState(seed % (2 ** 31))
    s = float(slack)
    if cls == "ConvexFunction":
        m = {"maxaffine": lambda: MaxAffine(rng, n), "maxaffine_nc": lambda: MaxAffine(rng, n, centered=False),
             "l1": lambda: WeightedL1(rng, n), "norm2": lambda: Norm2(rng, n), "sumphi": lambda: SumPhi(rng, n),
             "linf2": lambda: LinfSquared(rng, n)}[family]()
        return m, {}
    if cls == "StronglyConvexFunction":
        mu = _half(rng, 0.5, 3)
        base = {"maxaffine": lambda: MaxAffine(rng, n), "l1": lambda: WeightedL1(rng, n), "norm2": lambda: Norm2(rng, n),
                "sumphi": lambda: SumPhi(rng, n)}[family]()
        m = PlusQuadratic(base, mu)
        return m, {"mu": mu / s}
    if cls == "SmoothFunction":
        if family == "cos":
            m = CosSum(rng, n)
            return m, {"L": m.L * s}
        L = _half(rng, 0.5, 4)
        eigs = [(-L if rng.randint(2) else L)] + [rng.uniform(-L, L) for _ in range(n - 1)]
        m = Quadratic(rng, n, eigs)
        return m, {"L": L * s}
    if cls in ("SmoothConvexFunction", "SmoothConvexLipschitzFunction"):
        if family == "quadratic":
            L = _half(rng, 0.5, 4)
            eigs = [L] + [rng.uniform(0, L) * rng.randint(2) for _ in range(n - 1)]
            m = Quadratic(rng, n, eigs)
            Ltrue = L
        else:
            m = SumPhi(rng, n, quadratic_only=(family == "sumquad"))
            Ltrue = m.Lsmooth
        if cls == "SmoothConvexFunction":
            return m, {"L": Ltrue * s}
        # gradient norm bound: only bounded for non-quadratic phis; use Huber / logcosh only
        m = SumPhi(rng, n)
        m.phis = [["logcosh", "huber1", "huber.25", "huber4"][rng.randint(4)] for _ in m.phis]
        bound = {"logcosh": 1.0, "huber1": 1.0, "huber.25": 0.25, "huber4": 4.0}     # with huber4: M > L, gradients between L and M
        M = float(sum(w * bound[p] * np.linalg.norm(a) for w, p, a in zip(m.w, m.phis, m.A)))
        return m, {"L": m.Lsmooth * s, "M": max(M, 1e-6) * s}
    if cls in ("SmoothStronglyConvexFunction", "SmoothStronglyConvexQuadraticFunction"):
        mu = _half(rng, 0.5, 2)
        if family == "quadratic" or cls == "SmoothStronglyConvexQuadraticFunction":
            L = mu + _half(rng, 0.5, 4)
            eigs = [mu, L][:n] + [rng.uniform(mu, L) for _ in range(max(0, n - 2))]
            if n == 1:
                eigs = [mu if rng.randint(2) else L]
            m = Quadratic(rng, n, eigs)
            return m, {"mu": mu / s, "L": L * s}
        m = SumPhi(rng, n, mu=mu)
        return m, {"mu": mu / s, "L": m.Lsmooth * s}
    if cls == "ConvexLipschitzFunction":
        m = {"maxaffine": lambda: MaxAffine(rng, n), "maxaffine_nc": lambda: MaxAffine(rng, n, centered=False),
             "l1": lambda: WeightedL1(rng, n), "norm2": lambda: Norm2(rng, n)}[family]()
        return m, {"M": max(m.M, 1e-6) * s}
    if cls == "ConvexIndicatorFunction":
        m = BoxIndicator(rng, n) if family == "box" else BallIndicator(rng, n)
        D = "inf" if rng.randint(3) == 0 else max(m.D, 1e-6) * s
        return m, {"D": D}
    if cls == "ConvexSupportFunction":
        m = MaxAffine(rng, n, centered=True, through_origin=True)
        M = "inf" if rng.randint(3) == 0 else max(m.M, 1e-6) * s
        return m, {"M": M}
    if cls == "ConvexQGFunction":
        if family == "linf2":
            m = LinfSquared(rng, n)
            return m, {"L": m.L * s}
        m = SumPhi(rng, n)
        return m, {"L": m.Lsmooth * s}
    if cls == "RsiEbFunction":
        if family == "separable":
            m = RsiEbSeparable(rng, n)
            return m, {"mu": m.mu / s, "L": m.L * s}
        mu = _half(rng, 0.5, 2)
        m = SumPhi(rng, n, mu=mu)
        return m, {"mu": mu / s, "L": m.Lsmooth * s}
    if cls == "BlockSmoothConvexFunction":
        d = rng.randint(1, min(n, 3) + 1)
        cuts = sorted(rng.choice(np.arange(1, n), size=d - 1, replace=False).tolist()) if d > 1 else []
        bounds = [0] + cuts + [n]
        blocks = [list(range(bounds[k], bounds[k + 1])) for k in range(d)]
        m = SumPhi(rng, n, quadratic_only=(family == "sumquad"))
        Hq = (m.A.T * m.w) @ m.A
        Ls = [max(float(np.linalg.eigvalsh(Hq[np.ix_(b, b)])[-1]), 1e-6) * s for b in blocks]
        m.blocks = blocks
        return m, {"d": d, "Ls": Ls, "partition": 0}
    if cls in ("MonotoneOperator", "StronglyMonotoneOperator"):
        base = {"maxaffine": lambda: MaxAffine(rng, n), "l1": lambda: WeightedL1(rng, n), "norm2": lambda: Norm2(rng, n),
                "sumphi": lambda: SumPhi(rng, n), "box": lambda: BoxIndicator(rng, n)}[family]()
        mu = _half(rng, 0.5, 3) if cls == "StronglyMonotoneOperator" else 0.0
        m = SubdiffPlusSkew(rng, n, base, mu)
        return m, ({"mu": mu / s} if mu else {})
    if cls == "CocoerciveOperator":
        if family == "gradient":
            base = SumPhi(rng, n)
            return GradientOp(base), {"beta": 1.0 / (base.Lsmooth * s)}
        beta = _half(rng, 0.5, 3)
        Q = orth(rng, n)
        c = int_vec(rng, n, -2, 2)
        return AffineOp((np.eye(n) - Q) / (2 * beta), c), {"beta": beta / s}
    if cls == "CocoerciveStronglyMonotoneOperator":
        if family == "gradient" or n == 1:
            mu = _half(rng, 0.5, 2)
            base = SumPhi(rng, n, mu=mu)
            return GradientOp(base), {"mu": mu / s, "beta": 1.0 / (base.Lsmooth * s)}
        a = _half(rng, 0.5, 3)
        b = _half(rng, 0, 3)
        C, _ = rot_scale(rng, n, a, b)
        return AffineOp(C, int_vec(rng, n, -2, 2)), {"mu": a / s, "beta": a / (a * a + b * b) / s}
    if cls in ("LipschitzOperator", "LipschitzStronglyMonotoneOperator"):
        if cls == "LipschitzOperator" and family == "tanh":
            L = _half(rng, 0.5, 4)
            return TanhOp(rng, n, L), {"L": L * s}
        if family == "gradient" or n == 1:
            mu = _half(rng, 0.5, 2)
            base = SumPhi(rng, n, mu=mu)
            p = {"L": base.Lsmooth * s}
            if cls == "LipschitzStronglyMonotoneOperator":
                p["mu"] = mu / s
            return GradientOp(base), p
        a = _half(rng, 0.5, 3)
        b = _half(rng, 0, 3)
        C, _ = rot_scale(rng, n, a, b)
        p = {"L": math.sqrt(a * a + b * b) * s}
        if cls == "LipschitzStronglyMonotoneOperator":
            p["mu"] = a / s
        return AffineOp(C, int_vec(rng, n, -2, 2)), p
    if cls == "NegativelyComonotoneOperator":
        if family == "monotone":
            base = SumPhi(rng, n)
            return GradientOp(base), {"rho": _half(rng, 0.5, 3)}
        a = -_half(rng, 0.5, 2)
        b = _half(rng, 0.5, 3)
        if n == 1:
            b = 0.0
        C, _ = rot_scale(rng, n, a, b)
        rho = -a / (a * a + b * b) if n >= 2 and n % 2 == 0 else -a / (a * a)     # odd dimension: a coordinate with b = 0
        return AffineOp(C, int_vec(rng, n, -2, 2)), {"rho": rho * s}
    if cls == "NonexpansiveOperator":
        C = orth(rng, n) if family in ("rotation", "inconsistent") else sym_with_spectrum(rng, [rng.randint(0, 2) * 1.0 for _ in range(n)])
        if family == "contraction":
            C = C * rng.uniform(0, 1)
        c = int_vec(rng, n, -2, 2)
        if family == "inconsistent":
            # make sure 1 is an eigenvalue of C so that translations along its eigenvector are inconsistent
            C = sym_with_spectrum(rng, [1.0] + [rng.choice([1.0, -1.0, 0.5]) for _ in range(n - 1)])
            e = int_vec(rng, n, -2, 2)
            m = AffineOp(C, c, e)
            # infimal displacement vector: minimal-norm element of closure range(I - A)
            ImC = np.eye(n) - C
            # (I - A) x = (I - C) x + C c - e  ;  closure of the range = Im(I-C) + (C c - e)
            b = C @ c - e
            P = ImC @ np.linalg.pinv(ImC, rcond=1e-9)        # projector onto Im(I - C) (eigenvalues of C are 1, -1, .5)
            m.v = b - P @ b
            return m, {}
        m = AffineOp(C, c, c.copy())             # A c = c : fixed point c
        m.v = np.zeros(n)
        return m, {}
    if cls == "LinearOperator":
        L = _half(rng, 0.5, 3)
        U, V = orth(rng, n), orth(rng, n)
        sv = [L] + [rng.uniform(0, L) for _ in range(n - 1)]
        return AffineOp((U * np.array(sv)) @ V.T, np.zeros(n)), {"L": L * s}
    if cls == "SymmetricLinearOperator":
        L = _half(rng, 0.5, 3)
        mu = L - _half(rng, 0.5, 5)
        eigs = ([mu, L] + [rng.uniform(mu, L) for _ in range(n)])[:n] if n > 1 else [mu if rng.randint(2) else L]
        return AffineOp(sym_with_spectrum(rng, eigs), np.zeros(n)), {"mu": mu - (s - 1) * abs(mu), "L": L + (s - 1) * abs(L)}
    if cls == "SkewSymmetricLinearOperator":
        L = _half(rng, 0.5, 3)
        return AffineOp(skew(rng, n, L), np.zeros(n)), {"L": L * s if n > 1 else L}
    raise ValueError(cls)


class PlusQuadratic(Member):
    def __init__(self, base, mu):
        self.base = base
        self.mu = mu
        self.c = base.stationary()

    def value(self, x):
        return self.base.value(x) + 0.5 * self.mu * float(np.dot(x - self.c, x - self.c))

    def grad(self, x, rng):
        return self.base.grad(x, rng) + self.mu * (x - self.c)

    def stationary(self):
        return self.c.copy()


FAMILIES = {
    "ConvexFunction": ["maxaffine", "maxaffine_nc", "l1", "norm2", "sumphi", "linf2"],
    "StronglyConvexFunction": ["maxaffine", "l1", "norm2", "sumphi"],
    "SmoothFunction": ["cos", "quadratic"],
    "SmoothConvexFunction": ["quadratic", "sumphi", "sumquad"],
    "SmoothConvexLipschitzFunction": ["sumphi"],
    "SmoothStronglyConvexFunction": ["quadratic", "sumphi"],
    "SmoothStronglyConvexQuadraticFunction": ["quadratic"],
    "ConvexLipschitzFunction": ["maxaffine", "maxaffine_nc", "l1", "norm2"],
    "ConvexIndicatorFunction": ["box", "ball"],
    "ConvexSupportFunction": ["polytope"],
    "ConvexQGFunction": ["linf2", "sumphi"],
    "RsiEbFunction": ["separable", "sumphi"],
    "BlockSmoothConvexFunction": ["sumphi", "sumquad"],
    "MonotoneOperator": ["maxaffine", "l1", "norm2", "sumphi", "box"],
    "StronglyMonotoneOperator": ["maxaffine", "l1", "norm2", "sumphi"],
    "CocoerciveOperator": ["gradient", "rotation"],
    "CocoerciveStronglyMonotoneOperator": ["gradient", "rotscale"],
    "LipschitzOperator": ["tanh", "gradient", "rotscale"],
    "LipschitzStronglyMonotoneOperator": ["gradient", "rotscale"],
    "NegativelyComonotoneOperator": ["monotone", "rotscale"],
    "NonexpansiveOperator": ["rotation", "projection", "contraction", "inconsistent"],
    "LinearOperator": ["matrix"],
    "SymmetricLinearOperator": ["matrix"],
    "SkewSymmetricLinearOperator": ["matrix"],
}
