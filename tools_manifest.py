"""Regenerates MANIFEST.json from the table below (kept in one place so that it stays valid)."""
import json, os
HERE = os.path.dirname(os.path.abspath(__file__))
BASELINE = ("cd /repo && env -u PEPIT_VERIF /venv/bin/python -m pytest -ra -q -p no:cacheprovider --timeout=900 "
            "--continue-on-collection-errors")

CHECKS = {
 "C06": dict(
   technique="property-based testing (Hypothesis): generated typed expression trees + valuations against a numpy reference interpreter (differential), operand snapshots, exhaustive operator x operand-kind table",
   text="Generated-input search: thousands of random typed expression trees per run are built with the real overloads and their denotation (read from decomposition_dict by an independent evaluator) is compared with a numpy interpretation of the tree under generated valuations; every operator x operand-kind pair is enumerated to check that undocumented kinds raise. Exploration, not proof: depth <= 6, 4 leaf points, 3 leaf expressions.",
   note="Trusted: vf/sem.py evaluator and the reference interpreter in vf/checks/c06.py; numpy operands are out of scope.",
   design="DESIGN.md §3 C06"),
}

CHECKS["C01"] = dict(
   technique="property-based testing (Hypothesis): generated PEPit model programs x solver configurations; oracle = independent symbolic re-derivation of the dual certificate identity from the exposed multipliers",
   text="Generated-input search over DSL programs (all 24 classes, steps, several metrics, user constraints, LMIs, partitions) and configurations; for every finite solve the proof identity objective - tau = sum(lambda c) - <S,G> - sum<Lambda,M> is rebuilt coefficient by coefficient with an independent evaluator, signs / PSD-ness / shapes / returned constant are checked. Exploration with scale-relative solver tolerances; non-optimal statuses are inconclusive.",
   note="Trusted: vf/sem.py, cvxpy+CLARABEL/SCS as numerical solvers. MOSEK path is judged in C11 against a stand-in. For LMIs that are not symmetric as written the oracle uses the entry multipliers the library exposes (PSDMatrix.entries_dual_variable_value) and checks that their symmetric part is the PSD multiplier.",
   design="DESIGN.md §3 C01")
CHECKS["C02"] = dict(
   technique="property-based testing (Hypothesis): generated model programs with object histories around the solve; oracle = independent evaluation of every reachable object from the leaf values, Gram reconstruction, feasibility re-check",
   text="Generated-input search: for every finite solve the leaf values must reproduce the PSD projection of the solver's Gram matrix, every held / pool / post-solve-built object must evaluate to the combination of its operands (independent evaluator), every sent constraint and LMI must hold, objective = primal return = min metric, primal <= dual. Includes objects evaluated before the solve and leaves created after it.",
   note="Trusted: vf/sem.py, numpy eigh, CLARABEL/SCS (status optimal only).",
   design="DESIGN.md §3 C02")
CHECKS["C16"] = dict(
   technique="property-based testing (Hypothesis): generated object zoo x accessors x phases, witnessed unbounded/infeasible models, invalid option values; oracle = documented ValueError / None / raise",
   text="Generated-input search over object kinds, accessors and phases (never solved, solve returned None, created after a solve; each accessor is called twice), over models that are unbounded / infeasible with an independent witness (scaling ray, explicit contradiction) under CLARABEL and SCS, and over invalid option values on bounded models.",
   note="Trusted: vf/sem.py to decide whether an object depends on an unsolved leaf; solver status reporting. MOSEK-path unbounded behaviour not judged.",
   design="DESIGN.md §3 C16")

CHECKS["C05"] = dict(
   technique="property-based testing (Hypothesis): differential translation check on generated expressions; generated instruction soups run in build-only mode through a recording cvxpy wrapper and a recording stand-in MOSEK task, compared as multisets of affine functions with the interpreter's own ledger of declarations",
   text="Generated-input search: (1) dense and sparse translations of random expressions (mirrored / repeated keys, constants) are evaluated at random symmetric G and F and compared with an independent evaluation; (2) random legal programs over all classes, steps, constraint sources, LMIs and partitions are sent through PEP.solve with the numerical solve stubbed out, and what reached the cvxpy problem / the MOSEK task is compared, as a multiset with senses, with what the program declared (object identity and affine function at random points).",
   note="Trusted: vf/sem.py, cvxpy .value evaluation, the stand-in mosek Task semantics (appendsparsesymmat / putbaraij / bounds as documented). Real MOSEK is not installed.",
   design="DESIGN.md §3 C05")
CHECKS["C13"] = dict(
   technique="property-based testing (Hypothesis): generated solve/edit/evaluate histories on one PEP object (stateful, model-based): each solve is compared with a newly built equivalent model and with an independent evaluation of all held objects",
   text="Generated histories of edits (replace/drop/restore initial condition, add/assign metrics, add constraints and LMIs), solves with changing options and evaluations of user-held objects; after each solve: value equals that of a model rebuilt from scratch, held objects evaluate to the current leaf values (which reproduce the latest Gram matrix), nothing evaluates after a solve returning None, certificate valid for the latest solve, no stale multipliers, data sent equals that of the rebuilt model.",
   note="Trusted: vf/sem.py, CLARABEL/SCS, and that PEP() starts a fresh model (C12). Back-end changes between solves are limited to the cvxpy solvers here; MOSEK is covered in C11.",
   design="DESIGN.md §3 C13")

CHECKS["C11"] = dict(
   technique="property-based testing (Hypothesis): differential testing of the two back-ends on generated models (cvxpy+CLARABEL vs MosekWrapper on an executable stand-in mosek module), each side judged by the independent certificate and instance oracles",
   text="Generated-input search over models that stress what the MOSEK wrapper indexes (> 128 rows, LMIs not added / out of creation order / function-level next to class LMIs, leaves created during class-constraint generation, dimension reduction). Same value on both sides; on each side the certificate identity holds for that side's sent list with that side's multipliers (same attachment and sign convention), multipliers have the right signs, the returned instance is feasible and reproduces the Gram matrix.",
   note="Trusted: vf/standin/mosek written from the MOSEK Optimizer-API documentation (self-checking its dual feasibility), vf/sem.py, CLARABEL. Real MOSEK is not installed; discrepancies between real MOSEK and its documentation are out of reach.",
   design="DESIGN.md §3 C11")
CHECKS["C12"] = dict(
   technique="property-based testing (Hypothesis): generated (history, program) pairs executed in forked fresh interpreters; oracle = byte-identical canonical dump of everything sent to the solver, counters, cvxpy problem data and results",
   text="Generated-input search over histories of built / solved / failed / abandoned models followed by a program B; B's canonical dump (ordered constraint data, counters and registries, cvxpy problem data hash, result and evaluated objects bit for bit) is compared between a fresh fork, a fork that first ran the history, and a fork with another verbosity.",
   note="Trusted: fork isolation (the parent never builds PEPit objects), determinism of cvxpy canonicalisation and CLARABEL on identical input.",
   design="DESIGN.md §3 C12")

CHECKS["C04"] = dict(
   technique="property-based testing (Hypothesis): generated sample histories per class; oracle 1 = exact set comparison of the generated constraint functionals with an independently transcribed reference (documented interpolation conditions on every required pair); oracle 2 = metamorphic twin solves under permuted declaration order",
   text="Generated-input search over classes, admissible parameters, sample histories (leaf / combination points, repeated evaluations, stationary and fixed points, adjoint samples, infimal displacement vector) and declaration orders: the affine functionals PEPit generates (with sense; LMIs symmetrised) must equal those of vf/refconds.py modulo positive scaling and duplicates; the same samples declared in two orders must give the same worst-case value.",
   note="Trusted: vf/refconds.py (transcribed from docstrings / cited theorems), vf/sem.py, CLARABEL for the twin solves. Existence of an interpolating function is inherited from the cited theorems. One open known finding (skew-symmetric diagonal condition).",
   design="DESIGN.md §3 C04, Appendix A")
CHECKS["C14"] = dict(
   technique="property-based testing (Hypothesis): differential (plain solve vs solve with dimension reduction of the same generated program, both back-ends) with the certificate and instance oracles, plus a white-box read of the constraint added before the heuristic",
   text="Generated-input search over models (incl. ones whose true worst case has tiny but real eigenvalues), heuristics, tolerances, regularisations, back-ends and return modes: dual bound and certificate are those of the plain problem, primal value within the stated tolerance of the optimum and below the dual bound, returned instance feasible and consistent with the solver's Gram matrix, trace not increased by the trace heuristic.",
   note="Trusted: vf/sem.py, CLARABEL, stand-in mosek for the MOSEK half; solver failures inside the heuristic re-solve are inconclusive.",
   design="DESIGN.md §3 C14")

CHECKS["C03"] = dict(
   technique="property-based testing (Hypothesis): generated real members of each class (with exact / extremal parameters and all admissible subgradient choices) executed in lock-step with PEPit; oracle = every generated class constraint / LMI evaluated at the concrete samples",
   text="Generated-input search over the 24 classes, member families (quadratics with prescribed spectrum, max-affine, norms, Huber / log-cosh sums, indicators, support functions, rotations-scalings, projections, translations, matrices with prescribed singular values ...), dimensions, sample histories and subgradient selections: every scalar constraint, LMI and partition constraint PEPit generates must hold on the real samples (no solver involved). Extremal members make constraints nearly active.",
   note="Trusted: vf/members.py (membership by construction, spot-checked by a definitional test on random pairs), vf/sem.py. Generated members are a strict subset of each class; C04 covers the rest by exact comparison with the documented conditions.",
   design="DESIGN.md §3 C03, §2.4")
CHECKS["C17"] = dict(
   technique="property-based testing (Hypothesis): generated solved sample histories; oracle = position of every class constraint in the tables against the pair whose documented condition it carries (matched by affine functional), table shapes / labels, dual entries, constraint names",
   text="Generated-input search over classes, histories, named / unnamed points and functions, single and repeated solves: each class constraint must sit in exactly one cell, at the pair of samples whose documented condition it denotes; dual tables have one row / column per recorded sample, the multiplier at that cell and zero elsewhere; names spell function, condition and pair.",
   note="Trusted: vf/refconds.py, vf/sem.py, CLARABEL.",
   design="DESIGN.md §3 C17")

CHECKS["C15"] = dict(
   technique="property-based testing (Hypothesis): generated partitions / points / get_block call sequences with one or two build-only solves; oracles = sum-back and idempotence through an independent evaluator, rank (span) comparison of the sent relations with independently derived orthogonality relations, real coordinate partitions of R^n",
   text="Generated-input search over numbers of blocks, leaf and combination points (incl. the null gradient), call orders with repeats and decompositions between two solves: blocks sum back to the point, repeated calls return the same objects, one block is the identity, the relations sent at each solve are equalities whose span equals the span of all cross-block inner products of all decomposed points (nothing missing, nothing else, no growth), and real coordinate projections satisfy them.",
   note="Trusted: vf/sem.py, numpy matrix_rank. Block-smooth functions on real block-smooth members are covered in C03 / C04.",
   design="DESIGN.md §3 C15")

CHECKS["C07"] = dict(
   technique="property-based testing (Hypothesis): generated operation sequences on leaf and composite functions (stateful, model-based: the model is the denotation of every recorded sample read through an independent evaluator), invariants after every operation",
   text="Generated call sequences (oracle / gradient / value / __call__ / stationary_point / fixed_point / proximal_step) on 2-4 leaf functions and composites with zero, cancelling, nested and scaled weights, at leaf, combination and equal-decomposition points; after every call: one value per point, one gradient per point for differentiable functions, every composite sample is the weighted sum of term samples recorded at that point, stationary samples have zero gradient and are in both lists, the returned objects are the recorded ones.",
   note="Trusted: vf/sem.py. The identically-zero composite (every weight zero) is excluded as degenerate and counted.",
   design="DESIGN.md §3 C07")
CHECKS["C08"] = dict(
   technique="property-based testing (Hypothesis): for each primitive step, generated states / options compared with a reference delta written from the step's docstring (differential), plus real runs of the operation on real functions (quadratics, l1, boxes, quadratic mirror maps) checked against everything the step recorded",
   text="Generated-input search over the 8 steps, their options, step sizes, accuracies, leaf / combination starting points and leaf / composite functions: returned points obey the documented relation, exactly the documented samples and side constraints (up to positive scaling) are recorded on the right function and nothing else; real closed-form runs (prox, projection, span search, perturbed gradient at the exact accuracy, epsilon-subgradient, linear minimisation over a box, Bregman steps) satisfy the recorded samples and constraints, and data exactly at the documented accuracy sit on the boundary of the recorded constraint.",
   note="Trusted: the reference deltas in vf/checks/c08.py, vf/sem.py, vf/members.py. Distribution of a composite's sample over its terms is C07.",
   design="DESIGN.md §3 C08")

CHECKS["C09"] = dict(
   technique="property-based testing (Hypothesis): generated (example family, parameters, real class member, start point); the modelled method is re-implemented in numpy and run on the real member (differential against the bound returned by the shipped example), with extremal members in the generators",
   text="Generated-input search over 59 method families (gradient, momentum, line-search, coordinate, proximal, inexact-proximal, splitting, Frank-Wolfe, stochastic with exact expectation, fixed-point, monotone-operator, adaptive methods and potential functions), parameters in the documented ranges, real members of the declared classes (incl. the published worst cases: Huber functions with the extremal knee, rotations, extreme-curvature quadratics, c|x|, M|x|_inf in dimension n+1), dimensions and starting points: the real performance never exceeds the returned bound (1e-4 relative). The largest ratio reached per family is reported (>= 0.99 for 40 of 54 ratio families in the quick tier).",
   note="Trusted: the numpy re-implementations (from the docstrings), vf/members.py, CLARABEL. Members are a subset of each class; randomized methods are evaluated through the exact expectation over the finite sample space; bounds are computed with CLARABEL also where an example does not forward a solver.",
   design="DESIGN.md §3 C09")
CHECKS["C10"] = dict(
   technique="property-based testing (Hypothesis): every shipped example with a closed-form rate is run at generated parameters inside its documented range and compared with the rate it documents (tight: equality 1e-3, upper: one-sided); metamorphic relation: 13 equivalent formulations against their base example at generated parameters",
   text="Generated-input search over the parameter ranges stated in the docstrings of 65 examples (vf/examples_table.py: kind tight / upper derived from the docstring wording and the assertion used in the suite) and over parameters of the complexified formulations (split functions, redundant LMIs, useless partitions): tight rates are met, upper bounds are not exceeded, equivalent formulations do not move the value, and the wrapper / solver an example is called with are the ones its PEP.solve call receives.",
   note="Trusted: the closed forms returned by the examples within the documented ranges, CLARABEL (non-optimal statuses are inconclusive). Examples without closed form are only used in C09 / the metamorphic stream.",
   design="DESIGN.md §3 C10, Appendix B")

NOT_APPLICABLE = []

def main():
    props = [json.loads(l)["id"] for l in open(os.path.join(HERE, "properties.jsonl"))]
    checks = []
    for pid in props:
        if pid not in CHECKS:
            continue
        c = CHECKS[pid]
        checks.append({
            "property_id": pid,
            "quick_cmd": "./check %s quick" % pid,
            "thorough_cmd": "./check %s thorough" % pid,
            "evidence_file": "evidence/%s.json" % pid,
            "replay_cmd_template": "./check %s --replay {path}" % pid,
            "engine": "vf",
            "level_claimed": {"category": "exploration", "text": c["text"], "design_ref": c["design"]},
            "level_note": c["note"],
            "technique": c["technique"],
        })
    na = [x for x in NOT_APPLICABLE]
    claimed = {c["property_id"] for c in checks}
    for pid in props:
        if pid not in claimed and pid not in {x["property_id"] for x in na}:
            na.append({"property_id": pid, "reason": "check not built yet in this round (planned, see DESIGN.md §3); not claimed until its command exists"})
    manifest = {
        "version": 1,
        "setup_cmd": "./setup.sh",
        "hooks": {"guard": "PEPIT_VERIF", "enable": "no source hooks: checks observe PEPit through its public API, a recording wrapper subclass registered at run time and a stand-in mosek module; ./check exports PEPIT_VERIF=1 for uniformity",
                  "baseline_off_cmd": BASELINE, "source_commits": [], "add_only": True},
        "engines": [{"name": "vf", "path": "vf/", "serves_properties": sorted(claimed),
                     "kind_free_text": "Hypothesis-driven generators of PEPit DSL programs, independent semantic evaluator (vf/sem.py), sharded runner with failure bucketing, shrinking and JSON replay (vf/core.py, vf/run.py)"}],
        "checks": checks,
        "notes": "All checks: ./check <id> quick|thorough ; replay: ./check <id> --replay <file>. VERIF_SEED selects the Hypothesis seeds of all shards. Known findings: known_findings.json.",
        "not_applicable": na,
    }
    with open(os.path.join(HERE, "MANIFEST.json"), "w") as f:
        json.dump(manifest, f, indent=1)
    print("MANIFEST.json written:", len(checks), "checks,", len(na), "not claimed")

if __name__ == "__main__":
    main()
